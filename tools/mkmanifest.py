#!/usr/bin/env python3
"""Regenerate MANIFEST.json from the table below (run: python3 tools/mkmanifest.py)."""
import json, os
HERE = os.path.dirname(os.path.dirname(os.path.abspath(__file__)))
props = [json.loads(l) for l in open(os.path.join(HERE, 'properties.jsonl'))]
ALL = [p['id'] for p in props]

# id -> (technique, level text, level note, design ref)
CLAIMED = {}
def claim(pid, technique, text, note, ref):
    CLAIMED[pid] = (technique, text, note, ref)

exec(open(os.path.join(HERE, 'tools', 'claims.py')).read())

ADDENDA = globals().get('ADDENDA', {})
NOT_APPLICABLE = {}
checks = []
for pid in ALL:
    if pid not in CLAIMED:
        NOT_APPLICABLE[pid] = NOT_CLAIMED_REASON.get(pid, 'check not built yet')
        continue
    tech, text, note, ref = CLAIMED[pid]
    text = text + ADDENDA.get(pid, '')
    checks.append({
        'property_id': pid,
        'quick_cmd': './check %s --tier quick' % pid,
        'thorough_cmd': './check %s --tier thorough' % pid,
        'evidence_file': 'evidence/%s.json' % pid,
        'replay_cmd_template': './check %s --replay {path}' % pid,
        'engine': 'hypothesis-driver',
        'level_claimed': {'category': 'exploration', 'text': text, 'design_ref': ref},
        'level_note': note,
        'technique': tech,
    })
manifest = {
    'version': 1,
    'setup_cmd': './setup.sh',
    'hooks': {'guard': 'SVGPATHTOOLS_VERIF', 'enable': 'no hooks are needed: every property is observable through the public API; checks import /repo directly',
              'baseline_off_cmd': 'cd /repo && /venv/bin/python -m pytest -ra -q -p no:cacheprovider --timeout=900 --continue-on-collection-errors',
              'source_commits': [], 'add_only': True},
    'engines': [{'name': 'hypothesis-driver', 'path': 'vp/core.py', 'serves_properties': sorted(CLAIMED),
                 'kind_free_text': 'Hypothesis 6.168 strategies + exhaustive enumeration of small finite sub-domains, sharded over 16 processes; per-property oracle modules in vp/props; independent reference models in vp/ref'}],
    'checks': checks,
    'notes': 'Exit codes: 0 held, 1 VIOLATION, 2 harness error. VERIF_SEED selects the Hypothesis seeds; VERIF_REPO overrides the tree under test (default /repo). known_findings.txt lists recorded defects and fixes.',
    'not_applicable': [{'property_id': k, 'reason': v} for k, v in sorted(NOT_APPLICABLE.items())],
}
json.dump(manifest, open(os.path.join(HERE, 'MANIFEST.json'), 'w'), indent=1)
print('claimed', sorted(CLAIMED), 'not claimed', sorted(NOT_APPLICABLE))
