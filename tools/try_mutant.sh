#!/bin/bash
# tools/try_mutant.sh <PROP> <dir with patch.diff and demo.py> [tier]
# Confirms a seeded change in a scratch copy of /repo (removed afterwards):
#  - applies, runs the repo test suite (expects 91 passed / 1 known failure)
#  - demo.py must pass on clean and fail on the mutant
#  - runs ./check PROP against the mutant via VERIF_REPO
prop="$1"; mdir="$(cd "$2" && pwd)"; tier="${3:-quick}"
scratch="$(mktemp -d /tmp/mut_XXXXXX)"
trap 'rm -rf "$scratch"' EXIT
git -C /repo archive HEAD | tar -x -C "$scratch"
cd "$scratch"
echo "== demo on clean tree"; SVGPT_TREE="$scratch" /venv/bin/python "$mdir/demo.py" >/dev/null 2>&1; echo "demo_clean_exit=$?"
if ! git apply --unsafe-paths --directory="$scratch" "$mdir/patch.diff" 2>/dev/null; then
  patch -p1 -s < "$mdir/patch.diff" || { echo "PATCH-DOES-NOT-APPLY"; exit 3; }
fi
echo "== tests on mutant"; /venv/bin/python -m pytest -q -p no:cacheprovider --timeout=900 test 2>&1 | tail -1
echo "== demo on mutant"; SVGPT_TREE="$scratch" /venv/bin/python "$mdir/demo.py" >/dev/null 2>&1; echo "demo_mutant_exit=$?"
echo "== check $prop ($tier) on mutant"
cd /verif && VERIF_REPO="$scratch" ./check "$prop" --tier "$tier" 2>&1 | grep -v "^  bucket" | cut -c1-300 | head -12; echo "check_exit=${PIPESTATUS[0]}"
