#!/bin/bash
# run every claimed check (quick by default) and print one line per check
tier="${1:-quick}"; seed="${VERIF_SEED:-1}"
cd /verif
for p in $(python3 -c "import json; print(' '.join(c['property_id'] for c in json.load(open('MANIFEST.json'))['checks']))"); do
  s=$(date +%s); out=$(VERIF_SEED=$seed timeout 3600 ./check $p --tier $tier 2>&1); rc=$?; e=$(date +%s)
  echo "$p rc=$rc $((e-s))s $(echo "$out" | grep -c VIOLATION) violations; $(echo "$out" | grep -E "^C[0-9]+ tier" | cut -c1-120)"
  echo "$out" | grep -E "bucket=|HARNESS" | cut -c1-260 | head -6
done
