#!/usr/bin/env python3
"""Validate MANIFEST.json and evidence/*.json against the schemas (needs jsonschema: run with python3-vt)."""
import json, sys, glob, os
import jsonschema
HERE = os.path.dirname(os.path.dirname(os.path.abspath(__file__)))
ok = True
m = json.load(open(os.path.join(HERE, 'MANIFEST.json')))
jsonschema.validate(m, json.load(open('/root/.vp/MANIFEST.schema.json')))
es = json.load(open('/root/.vp/EVIDENCE.schema.json'))
for c in m['checks']:
    f = os.path.join(HERE, c['evidence_file'])
    if not os.path.exists(f):
        print('missing evidence', f); ok = False; continue
    try:
        jsonschema.validate(json.load(open(f)), es)
    except Exception as e:
        print('INVALID', f, str(e)[:300]); ok = False
ids = {json.loads(l)['id'] for l in open(os.path.join(HERE, 'properties.jsonl'))}
seen = {c['property_id'] for c in m['checks']} | {n['property_id'] for n in m.get('not_applicable', [])}
if ids != seen:
    print('properties not accounted for:', ids ^ seen); ok = False
print('OK' if ok else 'FAILED'); sys.exit(0 if ok else 1)
