# executed by tools/mkmanifest.py
NOT_CLAIMED_REASON = {}
claim('C03', 'exhaustive multi-affine grid (exact Fractions) + Hypothesis generated floats against a Bernstein reference',
      'Decides the polynomial identities completely on a finite grid that suffices for multi-affine straight-line code, and samples ~24k (quick) / 500k (thorough) float cases against an exact rational Bernstein reference with a stated rounding bound.',
      'Trusts: the rational reference in vp/ref/bez_ref.py; the reading that point/poly/derivative are branch-free polynomial code; tolerance 512*eps*sum|P_i|.',
      'DESIGN.md 2/C03')
claim('C01', 'Hypothesis-generated paths x all 8 option combinations; round-trip oracle parse_path(d()) with exact / running-rounding-bound comparison',
      'Round-trip search over ~24k (quick) / 300k (thorough) structured paths, every path under all 8 serialiser options; absolute form compared with library equality, relative form against an explicit accumulated rounding bound; d-strings additionally scanned by an independent SVG grammar tokenizer.',
      'Trusts: vp/ref/svgpath_ref.py tokenizer; relative-form tolerance model (DESIGN 2/C01); generator classes listed in the evidence counters.',
      'DESIGN.md 2/C01')
claim('C02', 'exhaustive enumeration of command programs (length<=3/4) + Hypothesis-generated programs and spellings, differential against a reference SVG path interpreter; metamorphic re-spelling',
      'Every program M+<=3 commands over the 20 letters (quick; <=4 thorough) and ~20k/400k generated longer programs are parsed by the library and by an independent interpreter written from the SVG grammar; results must be equal segment for segment, and two spellings of one program must parse equal.',
      'Trusts: vp/ref/svgpath_ref.py (scanner+interpreter, self-checked against the printer on every case); Arc construction delegated to the library constructor (C04).',
      'DESIGN.md 2/C02')
claim('C04', 'Hypothesis-generated arcs from the centre form and perturbations; validity predicate + differential against an independent F.6.5/F.6.6 implementation + closed-form/finite-difference derivatives',
      'About 40k (quick) / 600k (thorough) arcs covering all flag pairs, too-small/exactly-fitting/generous/negative radii, rotations inside and outside [0,360), eccentricity to 1e3; each checked for end points, radius policy, sweep/large-arc semantics, agreement with an independent reference at 17 parameters, derivatives n=1..6 and Bezier-approximation end points.',
      'Trusts: vp/ref/arc_ref.py; tolerance 1e-7*size (2e-4*size in the degenerate exactly-fitting window) because the library uses acos for angles; KF01 (radii >1e6 x chord) is a recorded finding.',
      'DESIGN.md 2/C04')
claim('C05', 'Hypothesis-generated paths and boundary-aimed T values; T2t/point/t2T coherence against harness-recomputed arc-length fractions; structural predicates recomputed from end points',
      '6k (quick) / 150k (thorough) paths x ~15 T values each, including every cumulative fraction and its ulp neighbours, T one and two ulps below 1, and denormal T; T2t must name the segment owning T (either neighbour within 8 ulp), point(T) must equal that segment at t, t2T must invert; iscontinuous/isclosed/continuous_subpaths compared with a direct recomputation.',
      'Trusts: seg.length() (C06); 8-ulp boundary slack; arcs reproduce their end points only to C04 accuracy.',
      'DESIGN.md 2/C05')
claim('C06', 'Hypothesis-generated segments/intervals/paths in two configurations (scipy / pure-Python fallback); rigorous subdivision bracket + independent adaptive Gauss-Legendre + additivity',
      'About 6.5k (quick) / 170k (thorough) length queries over all four segment types with collinear, fold-back, repeated-point, degree-elevated and cusp-like classes and eccentric rotated arcs; each value must be finite, non-negative, inside the [chords, control polygons] bracket, equal to independent quadrature within the stated tolerance, additive over adjacent intervals; path length = sum of segments; run with scipy and with scipy import blocked.',
      'Trusts: vp/ref/bez_ref.py de Casteljau subdivision; numpy leggauss nodes; the numerical reading of "speed vanishes" (min speed <= 1e-4 max speed); arcs are measured on the library\'s stored centre parameters.',
      'DESIGN.md 2/C06')
claim('C07', 'Hypothesis-generated curves and boundary-aimed s values in two configurations; inverse-relation oracle length(0, ilength(s)) = s, monotonicity, totality, ValueError outside [0,L]',
      'About 830 (quick) / 21k (thorough) curves x ~7 s-values: each segment type and mixed paths at scales 1e-3..1e6, s at 0, L, interior, dyadic fractions, the last double below L and every cumulative segment length +-1 ulp; the returned parameter must lie in [0,1] and invert length within max(1e-12, 1e-9 L); the iteration-cap exception is the observable for non-termination.',
      'Trusts: length() itself (C06); the 1e-9*L reading of "floating-point resolution of L"; no-scipy configuration sampled thinly (each call costs ~1 s).',
      'DESIGN.md 2/C07')
claim('C08', 'Hypothesis-generated segments and paths; containment and tightness of bbox() against independently computed critical points plus dense sampling',
      'About 16k (quick) / 300k (thorough) segments incl. exactly and approximately degree-deficient cubics, symmetric and collinear polygons, arcs classified by the number of axis extremes they cross (0..4); every side of the box must contain the sampled curve and coincide with an independently computed extreme; Path.bbox must be the exact union.',
      'Trusts: the harness critical-point solver (stable quadratic formula + Newton; atan2 critical angles) cross-checked by a 1025-point sample; tolerances in the evidence assumptions; KF02 recorded.',
      'DESIGN.md 2/C08')
claim('C09', 'Hypothesis-generated segments, split/crop parameters and paths (closed, retraced, joint-aligned, wrap-around); oracle is the documented parameter map evaluated point-wise plus end-point/joint/length predicates for path crops',
      'About 20k (quick) / 300k (thorough) cases: reversed/split/cropped of every segment class compared with point() under the stated reparameterisation at 9+ parameters; path reversed() mirror and length; path cropped() start/end/joints/length incl. T at joints, T1<T0 on closed paths and paths containing a segment twice.',
      'Trusts: point() (C03/C04), length() (C06), T2t (C05); arc tolerances as in C04; crops below the joint-snapping resolution are excluded and recorded as KF04.',
      'DESIGN.md 2/C09')
claim('C10', 'Hypothesis-generated curves x operations (translation, rotation, uniform/non-uniform scale, structured affine matrices); metamorphic oracle op(curve).point(t) == map(curve.point(t)) and exact joint preservation',
      'About 12k (quick) / 300k (thorough) (curve, operation) pairs over all segment types and open/closed paths; matrices are products of rotations, scales, reflections (incl. about y=x), shears and translations with condition number <= 1e3; the image of an arc must be an arc tracing the mapped points at every sampled parameter; every joint that coincided exactly, the closing one included, must coincide exactly afterwards; non-uniform scaled() of arcs must raise.',
      'Trusts: point() (C03/C04); tolerance model in the evidence assumptions.',
      'DESIGN.md 2/C10')
claim('C19', 'exhaustive exact grids per degree 0..8 (Fractions) + Hypothesis-generated Fraction/float control points; polynomials expanded exactly from prescribed root multisets; integer rational functions with prescribed common zeros',
      'Decides the n-th order identities (bezier_point, bezier2polynomial, polynomial2bezier, split_bezier, halve_bezier) on complete finite grids for degrees 0..8; ~10k/300k polynomials with clusters, complex pairs, edge and out-of-range roots check that every simple well-conditioned root in the condition is returned exactly once and nothing outside it; rational_limit against exact cancellation of the common factor.',
      'Trusts: vp/ref/bez_ref.py rational arithmetic; the stated conditioning filter for required roots.',
      'DESIGN.md 2/C19')
claim('C11', 'Hypothesis-generated segment pairs in constructed crossing/tangent/near-miss/disjoint/random configurations and path pairs; validity predicate on every returned pair + operand-swap metamorphic check',
      'About 1.5k (quick) / 60k (thorough) ordered pairs over all 16 type pairs (arcs circular/elliptic, rotated or not) at three scales; every returned (t1,t2) must be in range and name coincident points within the stated tolerance, swapped operands must report the same interior crossings, Path.intersect tuples must be coherent.',
      'Trusts: point() (C03/C04); exceptions tolerated as the property allows; tangential curved pairs are sampled thinly (seconds each), with a per-case timeout counted as inconclusive.',
      'DESIGN.md 2/C11')
claim('C12', 'Hypothesis-generated constructed crossings (all type pairs), exact rational root counting (Sturm) for Line/Bezier pairs, and path pairs with harness-located crossings; completeness oracle: each crossing reported exactly once',
      'About 16k (quick) / 300k (thorough) generated cases of which ~40% survive the general-position filters: constructed transversal crossings must be reported once within 1e-4 in both parameters; Line-Line/Line-Quadratic/Line-Cubic counts must equal the exact count from Sturm sequences over the rationals; every interior transversal crossing of two paths must appear once in Path.intersect.',
      'Trusts: vp/ref/xgeom.py polyline finder + Newton refinement for locating other crossings, vp/ref/exactgeom.py for exact counts; cases not in general position (end-point contact, near tangency, coincident crossing points, near cusps) are discarded and counted.',
      'DESIGN.md 2/C12')
claim('C13', 'Hypothesis-generated Bezier segments/paths and structured query points (far, near, on-curve, centre of curvature, beyond an end); global-optimality oracle from dense sampling + golden-section refinement',
      'About 16k (quick) / 300k (thorough) (curve, point) cases: t in range, the returned distances are attained at the returned parameters, and no sampled or refined point of the curve is closer than dmin / farther than dmax (1e-7 of the size); for paths the extreme over all segments and the reported index, plus closest/farthest_point_in_path agreement.',
      'Trusts: point() (C03); 4001-point sample with golden-section refinement as the reference optimum.',
      'DESIGN.md 2/C13')
claim('C15', 'Hypothesis-generated segments (regular and with coincident end control points heading into 16+ directions, Python and numpy complex) and similarity transforms; oracle from reference derivatives, one-sided-limit rule at singular ends, covariance relations',
      'About 12k (quick) / 300k (thorough) cases: unit_tangent, normal and curvature against exact-rational Bernstein derivatives (closed form for arcs) at regular points; at singular end points the tangent must equal the direction of the first non-vanishing derivative with the sign of the limit from inside, cross-checked against the neighbourhood; tangent and curvature must transform correctly under translation, rotation, +-uniform scaling and reversal.',
      'Trusts: vp/ref/bez_ref.py, vp/ref/arc_ref.py; tolerances in the evidence assumptions; interior cusps excluded.',
      'DESIGN.md 2/C15')
claim('C16', 'histories as generated data (Hypothesis lists of operations) + enumeration of operation sequences up to depth 3/4; model-based oracle: Python list model for the segment sequence and a freshly built object for every query, in two configurations',
      'About 11k (quick) / 150k (thorough) histories per run: every mutation through the Path interface is mirrored on a list model, and after every step a battery of queries (len, start, end, continuity, length, point, T2t, bbox, d, ==, hash) must equal the same queries on a new Path of the current segments; length with tolerance arguments must be at least as accurate as a fresh object; segment histories (reassign control points, other tolerances, reversed); equal-by-construction pairs must hash equal; operation sequences over a 24-operation alphabet are enumerated (quick: all of depth <= 2 and a third of depth 3; thorough: all of depth <= 3 and a sixth of depth 4).',
      'Trusts: Python list semantics as the model; Arc end points are not reassigned (not supported by the class); histories are generated as data rather than with RuleBasedStateMachine so that the replay file is the history itself.',
      'DESIGN.md 2/C16')
claim('C20', 'Hypothesis-generated line/cubic paths built from headings (corner angles 0.5-179 deg, smooth joints, S-type cubics, open/closed) x maxjointsize x tightness; validity predicate on the output (continuity, end points, tangent agreement at every joint, distance to the input, preserved smooth joints)',
      'About 6k (quick) / 100k (thorough) paths: the smoothed path must be continuous, keep its end points (open) or stay closed, have matching reference unit tangents at every joint including the closing joint, stay within maxjointsize of the input (dense flattening), keep already-smooth joints in place, and return single-segment paths unchanged.',
      'Trusts: vp/ref/bez_ref.py derivatives with the C15 one-sided-limit rule; joint tolerance 2e-5 plus a conditioning term; 180-degree reversals excluded.',
      'DESIGN.md 2/C20')
claim('C14', 'Hypothesis-generated integer polygons / small-integer Bezier outlines / arc ellipses and their affine images; exact rational oracles (shoelace, integral of x dy, even-odd parity, exact segment crossing tests) and algebraic laws',
      'About 5k (quick) / 120k (thorough) cases: area() against exact rational areas (pi rx ry within the chord bound for arcs), its sign and its behaviour under reversal, translation, scaling and affine maps; path_encloses_pt against exact crossing parity for probes proven (in rationals) to be in general position; is_contained_by against exact crossing tests and even-odd containment of the inner start.',
      'Trusts: vp/ref/exactgeom.py; curved outlines use an 800-point-per-segment flattening with distance, grazing and joint filters; arc areas with chord_length 1e-2 x size.',
      'DESIGN.md 2/C14')
claim('C17', 'Hypothesis-generated SVG document trees (all seven element kinds, nested groups, structured transform lists) printed to text; differential against a reference flattener that works on the generated structure',
      'About 4k (quick) / 60k (thorough) documents (~6 leaves each): every leaf returned by Document.paths, Document.paths_from_group, svg2paths and SaxDocument is matched by id (document order for SaxDocument) and compared segment-wise through the reference matrix product (outermost ancestor first) and the SVG 1.1 shape definitions; circles/ellipses as point sets on the mapped ellipse.',
      'Trusts: vp/ref/svgdoc_ref.py (transforms per SVG 1.1 7.6, shapes per section 9); transform arguments separated by single commas/spaces; condition number of chains <= 1e3.',
      'DESIGN.md 2/C17')
claim('C18', 'Hypothesis-generated path lists/attribute dictionaries/file locations for wsvg round trips, and Document histories generated as data (add_group/add_path/paths/save/reload); round-trip and model-based oracles across three readers',
      'About 3k (quick) / 40k (thorough) cases: files written by wsvg are read back by svg2paths, Document and SaxDocument with the same paths in the same order (absolute d-string relation) and the supplied per-path and svg-level attributes; Document histories keep a model of every added path with its group-transform chain and compare paths() before saving and after reloading with each reader.',
      'Trusts: vp/ref/svgdoc_ref.py transform matrices; attribute values drawn from an XML-safe alphabet; temporary directories created and removed by the check.',
      'DESIGN.md 2/C18')

# additions made after the seeded-change rounds 2-5 (DESIGN.md section 10); appended to the level text by mkmanifest.py
ADDENDA = {
    'C02': ' The first spelling is parsed again after an earlier result of the same string was edited in place.',
    'C03': ' Also: segments that are reversed copies of queried ones or had control points reassigned, copies 1e3..1e9 sizes away from the origin, and integer-coefficient polynomials in four containers.',
    'C04': ' A quarter of the arcs are obtained by reversed() from the mirror-image description.',
    'C05': ' Half of the paths under test are derived from an already-queried path (scaled, rotated, translated, reversed) or edited in place after queries; a small no-scipy configuration and loop segments are included; the lengths taken over from the library are bounded by chord polyline and control polygon.',
    'C06': ' Path cases continue with an edit of the queried path (end/start assignment, replace, append, delete, insert) and compare the path, its reversed copy and its segments with fresh ones.',
    'C07': ' Half of the cases request an explicit tolerance (1e-3..1e-9 of L); paths are also built through edits after queries and may repeat a segment.',
    'C08': ' Segments are re-checked after translated/reversed/rotated/in-place reassignment following a first bbox(); paths after moving their end through the Path interface.',
    'C09': ' Segments under test are also products of reversed() or of an end crop; a no-scipy configuration covers the length clauses on small Bezier paths.',
    'C10': ' Operands may have a past (queried, reversed twice, translated there and back); matrices include near-identity and integer-typed ones; arcs built with autoscale_radius=False; a non-uniformly scaled arc must be refused or right.',
    'C11': ' Pairs are also placed 1e3..1e6 sizes from the origin; exactly axis-parallel lines; explicit tol argument; paths with sweep-twin arcs, end-touching configurations and justonemode=True.',
    'C12': ' Operands with a past (queried / reversed copies), exactly vertical and horizontal lines, arch-shaped and degree-elevated cubics, clockwise arcs of more than 300 degrees.',
    'C13': ' Segments that are reversed copies of queried ones or were reassigned after queries; exact 2^-10 / 2^-20 copies; loop segments in paths.',
    'C14': ' Scaling about arbitrary origins with non-dyadic factors, laws on mixed arc/line outlines, exactly vertical/horizontal probes, polygon edges written as degree-elevated Beziers, rounded rectangles with chord lengths around the corner-arc length.',
    'C15': ' Both numpy error states; transforms through 3x3 matrices and by 2^-30 / 2^20; numpy arrays of parameters must give the per-parameter values.',
    'C16': ' Tolerance histories inside the quadratic\'s numerically integrated branch; reassignments to hash-colliding values.',
    'C17': ' Transform lists separated by white space and/or a comma, blank before the parenthesis.',
    'C18': ' Attribute dictionaries may carry a stale d entry (as svg2paths hands them out).',
    'C19': ' Pairs of simple roots a few 1e-6 apart on either side of the condition boundary.',
    'C20': ' Loop cubics, point-symmetric S-curves, segments up to 1000 x maxjointsize, and a small no-scipy configuration.',
}
