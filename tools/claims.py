# executed by tools/mkmanifest.py
NOT_CLAIMED_REASON = {}
claim('C03', 'exhaustive multi-affine grid (exact Fractions) + Hypothesis generated floats against a Bernstein reference',
      'Decides the polynomial identities completely on a finite grid that suffices for multi-affine straight-line code, and samples ~24k (quick) / 500k (thorough) float cases against an exact rational Bernstein reference with a stated rounding bound.',
      'Trusts: the rational reference in vp/ref/bez_ref.py; the reading that point/poly/derivative are branch-free polynomial code; tolerance 512*eps*sum|P_i|.',
      'DESIGN.md 2/C03')
