#!/bin/bash
# tools/keep_mutants.sh <PROP> [round]: copy /tmp/wt[round]_<PROP>/seed_out/m* to /verif/seeded/<PROP>-[r<round>]m*/ and remove the worktree
prop="$1"; round="${2:-}"; wt="/tmp/wt${round}_$prop"
for d in "$wt"/seed_out/m*; do
  [ -d "$d" ] || continue
  k="$(basename "$d")"; dest="/verif/seeded/$prop-${round:+r$round}$k"
  mkdir -p "$dest"; cp "$d"/patch.diff "$d"/demo.py "$dest"/ 2>/dev/null; cp "$d"/notes.txt "$dest"/ 2>/dev/null
  echo "kept $dest"
done
git -C /repo worktree remove --force "$wt" && echo "removed $wt"
