#!/bin/bash
# tools/quick_mut.sh <PROP> <file relative to repo> <python-expr-old> <python-expr-new>   (exact string replace, first occurrence count must be >=1)
prop="$1"; file="$2"; old="$3"; new="$4"
scratch="$(mktemp -d /tmp/qm_XXXXXX)"; trap 'rm -rf "$scratch"' EXIT
git -C /repo archive HEAD | tar -x -C "$scratch"
OLD="$old" NEW="$new" /venv/bin/python - "$scratch/$file" <<'PY' || exit 3
import os, sys
p = sys.argv[1]; s = open(p).read(); old = os.environ['OLD']; new = os.environ['NEW']
if old not in s: print('OLD STRING NOT FOUND'); sys.exit(3)
open(p, 'w').write(s.replace(old, new, 1))
PY
if [ -n "$RUNTESTS" ]; then (cd "$scratch" && /venv/bin/python -m pytest -q -p no:cacheprovider --timeout=900 test 2>&1 | tail -1); fi
cd /verif && VERIF_REPO="$scratch" ./check "$prop" --tier quick 2>&1 | cut -c1-250 | head -8
