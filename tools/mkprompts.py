#!/usr/bin/env python3
"""tools/mkprompts.py <round> <N> <PROP>...: create a scratch worktree /tmp/wt<round>_<PROP> of /repo HEAD per property
and print the sub-agent prompt files /tmp/prompt<round>_<PROP>.txt (template tools/agent_prompt.txt; only the
property's text goes in)."""
import json, os, subprocess, sys
here = os.path.dirname(os.path.abspath(__file__))
rnd, n = sys.argv[1], sys.argv[2]
props = {json.loads(l)['id']: json.loads(l) for l in open(os.path.join(here, '..', 'properties.jsonl'))}
tpl = open(os.path.join(here, 'agent_prompt.txt')).read()
extra = ''
if len(rnd) and int(rnd) >= 3:
    extra = ("\n\nThis is a later round: obvious sites (the main formula of each method) have been used already. Look for the less "
             "obvious ones: caches and their invalidation, in-place mutation of arguments or of shared objects, branches taken only for one segment type or "
             "one option value, tolerance constants, early exits, helper functions used by several public methods, "
             "operations whose effect shows only in a LATER call on the same or a derived object.")
if len(rnd) and int(rnd) >= 5:
    extra = ("\n\nThis is a late round: the main formulas, the caches and in-place edits have been used already. Look elsewhere: rarely used "
             "keyword arguments and option values of the public functions involved (tolerances, flags, alternative modes), alternative but "
             "legitimate input types (ints instead of floats, numpy scalars or arrays where the function accepts them, parameter values given as "
             "0/1 ints), the configuration in which scipy is not installed (simulate with sys.modules['scipy'] = None before importing the "
             "library), error handling for invalid input that the property mentions, and behaviour that differs between the segment types.")
if len(rnd) and int(rnd) >= 6:
    extra = ("\n\nThis is the last round: formulas, caches, in-place edits, rare options and input types, the no-scipy configuration have all been "
             "used. Look at COMPOSITIONS: a defect that shows only when one public operation is applied to the RESULT of another (for example "
             "rotated() then cropped(), reversed() then split(), transform() then d(), scaled() then intersect(), cropped() then bbox(), "
             "parse_path() of the output of d() of a transformed path), because the first operation leaves the object in a legal but unusual "
             "internal state (attribute types, stored angles outside their usual range, flags, radii given negative, ...). Keep your runs light: the machine is busy.")
for pid in sys.argv[3:]:
    wt = '/tmp/wt%s_%s' % (rnd, pid)
    if not os.path.isdir(wt):
        subprocess.check_call(['git', '-C', '/repo', 'worktree', 'add', '--detach', '-q', wt, 'HEAD'])
    p = props[pid]
    txt = tpl.format(WT=wt, ID=pid, TITLE=p['title'], STATEMENT=p['statement'], QUANT=p['quantifier']['text'], N=n) + extra
    open('/tmp/prompt%s_%s.txt' % (rnd, pid), 'w').write(txt)
    print(wt)
