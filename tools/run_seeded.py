#!/usr/bin/env python3
"""Confirm every seeded change under /verif/seeded/<id>/ and write its meta.json.

For each mutant: scratch copy of /repo HEAD (removed afterwards), demo on the clean tree, apply the patch, run the
repository's test suite, run the demo on the mutant, run the property's quick check (and any extra checks listed in
seeded/<id>/also.txt) against the mutant through VERIF_REPO."""
import json, os, re, subprocess, sys, tempfile, shutil

HERE = os.path.dirname(os.path.dirname(os.path.abspath(__file__)))
props = {json.loads(l)['id']: json.loads(l) for l in open(os.path.join(HERE, 'properties.jsonl'))}
only = sys.argv[1:]
repo_head = subprocess.check_output(['git', '-C', '/repo', 'rev-parse', '--short', 'HEAD'], text=True).strip()


def run(cmd, cwd=None, env=None, timeout=3000):
    e = dict(os.environ)
    e.update(env or {})
    p = subprocess.run(cmd, cwd=cwd, env=e, stdout=subprocess.PIPE, stderr=subprocess.STDOUT, text=True, timeout=timeout)
    return p.returncode, p.stdout


for mid in sorted(os.listdir(os.path.join(HERE, 'seeded'))):
    d = os.path.join(HERE, 'seeded', mid)
    if not os.path.isdir(d) or not os.path.exists(os.path.join(d, 'patch.diff')):
        continue
    if only and not any(mid.startswith(o) for o in only):
        continue
    prop = mid.split('-')[0]
    scratch = tempfile.mkdtemp(prefix='seed_', dir='/tmp')
    meta = {'id': mid, 'breaks_property': prop, 'property_title': props[prop]['title'], 'repo_commit_checked_against': repo_head}
    try:
        subprocess.run('git -C /repo archive HEAD | tar -x -C %s' % scratch, shell=True, check=True)
        rc, out = run(['/venv/bin/python', os.path.join(d, 'demo.py')], cwd=scratch, env={'SVGPT_TREE': scratch})
        meta['demo_on_clean_tree_exit'] = rc
        rc, out = run(['git', 'apply', '--unsafe-paths', '--directory=' + scratch, os.path.join(d, 'patch.diff')], cwd=scratch)
        if rc != 0:
            rc, out = run('patch -p1 -s < %s' % os.path.join(d, 'patch.diff'), cwd=scratch) if False else subprocess.run(
                'patch -p1 -s < %s' % os.path.join(d, 'patch.diff'), cwd=scratch, shell=True, stdout=subprocess.PIPE, stderr=subprocess.STDOUT, text=True).returncode, ''
        meta['patch_applies_to_current_head'] = (rc == 0)
        if rc == 0:
            for attempt in range(3):
                rc, out = run(['/venv/bin/python', '-m', 'pytest', '-q', '-p', 'no:cacheprovider', '--timeout=900', 'test'], cwd=scratch)
                meta['repo_test_suite_with_change'] = out.strip().splitlines()[-1] if out.strip() else ''
                failed = re.findall(r'FAILED (\S+)', out)
                # test_arc_line draws unseeded random inputs and fails spuriously now and then on the clean tree as well
                if failed and all('test_arc_line' in f for f in failed):
                    meta['note'] = 'test_arc_line (unseeded random test, flaky on the clean tree too) failed in attempt %d; suite re-run' % (attempt + 1)
                    continue
                break
            rc, out = run(['/venv/bin/python', os.path.join(d, 'demo.py')], cwd=scratch, env={'SVGPT_TREE': scratch})
            meta['demo_with_change_exit'] = rc
            checks = [prop]
            also = os.path.join(d, 'also.txt')
            if os.path.exists(also):
                checks += open(also).read().split()
            meta['checks'] = {}
            for c in checks:
                rc, out = run([os.path.join(HERE, 'check'), c, '--tier', 'quick'], cwd=HERE, env={'VERIF_REPO': scratch, 'VERIF_SEED': '1'})
                buckets = sorted(set(re.findall(r'bucket=(\S+)', out)))
                meta['checks'][c] = {'cmd': 'VERIF_REPO=<scratch copy with patch> ./check %s --tier quick' % c, 'exit': rc,
                                     'detected': rc == 1, 'violation_buckets': buckets[:8]}
                # remove replay files written for the mutant
                for f in re.findall(r'replay=(\S+)', out):
                    if '/replays/' in f and os.path.exists(f):
                        os.remove(f)
        notes = os.path.join(d, 'notes.txt')
        meta['needs_to_manifest'] = open(notes).read().strip() if os.path.exists(notes) else ''
        meta['what_was_run'] = ('tools/run_seeded.py: demo.py on a clean scratch copy of /repo HEAD, git apply patch.diff, the repository test suite, '
                               'demo.py again, then the listed checks with VERIF_REPO pointing at the patched copy; scratch copy removed afterwards')
        meta['valid'] = bool(meta.get('patch_applies_to_current_head') and meta.get('demo_on_clean_tree_exit') == 0 and meta.get('demo_with_change_exit') not in (0, None)
                             and 'passed' in meta.get('repo_test_suite_with_change', '') and 'failed' not in meta.get('repo_test_suite_with_change', ''))
    finally:
        shutil.rmtree(scratch, ignore_errors=True)
    remarks = os.path.join(d, 'remarks.json')     # hand-written findings about this change (kept across re-runs)
    if os.path.exists(remarks):
        meta.update(json.load(open(remarks)))
    json.dump(meta, open(os.path.join(d, 'meta.json'), 'w'), indent=1)
    det = {c: v['detected'] for c, v in meta.get('checks', {}).items()}
    print(mid, 'valid=%s' % meta.get('valid'), 'detected=%s' % det, flush=True)
