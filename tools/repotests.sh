#!/bin/bash
# run the repository's baseline suite on a tree (default /repo); prints the summary line
tree="${1:-/repo}"
cd "$tree" && /venv/bin/python -m pytest -q -p no:cacheprovider --timeout=900 -q test 2>&1 | tail -4
