"""Shared Hypothesis strategies.  Every strategy yields plain JSON data:
numbers are Python floats (ints are converted), points are [re, im] lists,
segments are ['L', p0, p1] / ['Q', p0, p1, p2] / ['C', p0, p1, p2, p3] /
['A', start, [rx, ry], rotation_deg, large(0/1), sweep(0/1), end].
build_* functions turn that data into library objects (imported lazily so the
module can be imported before the library configuration is set up)."""
from __future__ import annotations

import math
from hypothesis import strategies as st

EPS = 2.0 ** -52

# ---------------------------------------------------------------------------
# numbers
# ---------------------------------------------------------------------------

small_ints = st.integers(-20, 20).map(float)
halves = st.integers(-64, 64).map(lambda k: k / 2.0)
dyadics = st.builds(lambda k, e: k / float(2 ** e), st.integers(-200, 200), st.integers(0, 6))
decimals = st.builds(lambda k, d: float('%d.%s' % (k // 10 ** d, ('%0*d' % (d, abs(k) % 10 ** d)))) if k >= 0
                     else -float('%d.%s' % ((-k) // 10 ** d, ('%0*d' % (d, (-k) % 10 ** d)))),
                     st.integers(-99999, 99999), st.integers(1, 3))
unit_floats = st.floats(-1.0, 1.0, allow_nan=False, allow_infinity=False, allow_subnormal=False)


def floats_in(lo, hi):
    # values within 1e-300 of zero are flushed to zero: the properties speak of coordinate magnitudes 1e-3..1e6, and numpy's
    # root finder overflows on 1/x for such x (the shrinker would otherwise steer every failure there)
    return st.floats(lo, hi, allow_nan=False, allow_infinity=False, allow_subnormal=False).map(lambda v: 0.0 if abs(v) < 1e-300 else v)


def coord(scale=1.0, wide=False):
    """A coordinate of magnitude about `scale`: nice values mixed with arbitrary doubles."""
    base = st.one_of(small_ints, halves, decimals, dyadics,
                     floats_in(-10.0, 10.0), floats_in(-10.0, 10.0))
    if scale == 1.0:
        return base
    # (products that fall into the subnormal range are flushed to zero: the properties speak of coordinate magnitudes
    # 1e-3..1e6, and 1/x overflows for subnormal x inside numpy's root finder)
    return base.map(lambda v: 0.0 if abs(v * scale) < 1e-300 else v * scale)


scales = st.sampled_from([1e-3, 1e-2, 1.0, 1.0, 1.0, 1e2, 1e4, 1e6])


def point(scale=1.0):
    return st.tuples(coord(scale), coord(scale)).map(list)


def nextafter_k(x, k):
    for _ in range(abs(k)):
        x = math.nextafter(x, math.inf if k > 0 else -math.inf)
    return x


ts_unit = st.one_of(st.sampled_from([0.0, 1.0, 0.5, 0.25, 0.75, 0.125]),
                    floats_in(0.0, 1.0), floats_in(0.0, 1.0),
                    st.sampled_from([math.nextafter(0.0, 1.0), math.nextafter(1.0, 0.0), 1e-9, 1 - 1e-9]))
ts_open = floats_in(0.001, 0.999)


# ---------------------------------------------------------------------------
# helpers on JSON data
# ---------------------------------------------------------------------------

def C(p):
    return complex(p[0], p[1])


def P(z):
    z = complex(z)
    return [float(z.real), float(z.imag)]


def pts_distinct(pts):
    return len({(p[0] + 0.0, p[1] + 0.0) for p in pts}) >= 2


def build_seg(spec):
    from svgpathtools import Line, QuadraticBezier, CubicBezier, Arc
    k = spec[0]
    if k == 'L':
        return Line(C(spec[1]), C(spec[2]))
    if k == 'Q':
        return QuadraticBezier(C(spec[1]), C(spec[2]), C(spec[3]))
    if k == 'C':
        return CubicBezier(C(spec[1]), C(spec[2]), C(spec[3]), C(spec[4]))
    if k == 'A':
        return Arc(C(spec[1]), C(spec[2]), spec[3], bool(spec[4]), bool(spec[5]), C(spec[6]))
    raise ValueError(spec)


def build_path(specs):
    from svgpathtools import Path
    return Path(*[build_seg(s) for s in specs])


def seg_spec_of(seg):
    from svgpathtools import Line, QuadraticBezier, CubicBezier, Arc
    if isinstance(seg, Line):
        return ['L', P(seg.start), P(seg.end)]
    if isinstance(seg, QuadraticBezier):
        return ['Q', P(seg.start), P(seg.control), P(seg.end)]
    if isinstance(seg, CubicBezier):
        return ['C', P(seg.start), P(seg.control1), P(seg.control2), P(seg.end)]
    if isinstance(seg, Arc):
        return ['A', P(seg.start), P(seg.radius), float(seg.rotation), int(seg.large_arc),
                int(seg.sweep), P(seg.end)]
    raise ValueError(seg)


def spec_start(spec):
    return spec[1]


def spec_end(spec):
    return spec[-1]


def spec_points(spec):
    if spec[0] == 'A':
        return [spec[1], spec[6]]
    return spec[1:]


def spec_size(specs):
    xs = [p[0] for s in specs for p in spec_points(s)]
    ys = [p[1] for s in specs for p in spec_points(s)]
    if not xs:
        return 1e-300
    r = 0.0
    for s in specs:
        if s[0] == 'A':
            r = max(r, abs(s[2][0]), abs(s[2][1]))
    return max(max(xs) - min(xs), max(ys) - min(ys), r, 1e-300)


# ---------------------------------------------------------------------------
# Bezier control polygons by class
# ---------------------------------------------------------------------------

@st.composite
def bezier_pts(draw, deg, scale=1.0, classes=None):
    """Control points of a degree-`deg` Bezier, with a class tag.
    Returns (tag, [points])."""
    classes = classes or ['generic', 'generic', 'generic', 'collinear', 'foldback',
                          'repeat_start', 'repeat_end', 'repeat_mid', 'elevated', 'axis', 'symmetric', 'nearlinear']
    tag = draw(st.sampled_from(classes))
    n = deg + 1
    pt = point(scale)
    if deg == 1 and tag not in ('generic', 'axis'):
        tag = 'generic'
    if tag == 'generic' or tag == 'symmetric' and deg < 2:
        pts = [draw(pt) for _ in range(n)]
    elif tag == 'collinear' or tag == 'foldback':
        a = draw(pt)
        d = draw(pt)
        if tag == 'collinear':
            ks = sorted(draw(st.lists(st.integers(0, 12), min_size=n, max_size=n)))
        else:
            ks = draw(st.lists(st.integers(-6, 12), min_size=n, max_size=n))
        exact = draw(st.booleans())
        if exact:
            pts = [[a[0] + k * d[0], a[1] + k * d[1]] for k in ks]
        else:
            fs = [k / 7.0 for k in ks]
            pts = [[a[0] + f * d[0], a[1] + f * d[1]] for f in fs]
    elif tag == 'repeat_start':
        pts = [draw(pt) for _ in range(n)]
        pts[1] = list(pts[0])
        if deg == 3 and draw(st.booleans()):
            pts[2] = list(pts[0])
    elif tag == 'repeat_end':
        pts = [draw(pt) for _ in range(n)]
        pts[-2] = list(pts[-1])
        if deg == 3 and draw(st.booleans()):
            pts[-3] = list(pts[-1])
    elif tag == 'repeat_mid':
        pts = [draw(pt) for _ in range(n)]
        if deg == 3:
            pts[2] = list(pts[1])
        else:
            pts[1] = list(pts[draw(st.sampled_from([0, -1]))])
    elif tag == 'elevated':
        # degree elevation (in floats) of a lower-degree curve
        if deg == 3:
            q = [draw(pt) for _ in range(3)]
            if draw(st.booleans()):
                q[1] = [(q[0][0] + q[2][0]) / 2, (q[0][1] + q[2][1]) / 2] if draw(st.booleans()) else q[1]
            pts = [q[0],
                   [q[0][0] + 2.0 / 3.0 * (q[1][0] - q[0][0]), q[0][1] + 2.0 / 3.0 * (q[1][1] - q[0][1])],
                   [q[2][0] + 2.0 / 3.0 * (q[1][0] - q[2][0]), q[2][1] + 2.0 / 3.0 * (q[1][1] - q[2][1])],
                   q[2]]
            # optionally only one coordinate is of lower degree
            if draw(st.booleans()):
                other = [draw(pt) for _ in range(4)]
                pts = [[pts[i][0], other[i][1]] for i in range(4)]
        elif deg == 2:
            a, b = draw(pt), draw(pt)
            pts = [a, [(a[0] + b[0]) / 2, (a[1] + b[1]) / 2], b]
        else:
            pts = [draw(pt) for _ in range(n)]
    elif tag == 'nearlinear':
        # evenly spaced points on a line (constant speed) plus a perturbation of relative size 1e-3..1e-14
        a, b = draw(pt), draw(pt)
        if a == b:
            b = [b[0] + scale, b[1] + scale / 3]
        pts = [[a[0] + (b[0] - a[0]) * i / float(deg), a[1] + (b[1] - a[1]) * i / float(deg)] for i in range(n)]
        k = 10.0 ** -draw(st.integers(3, 14))
        j = draw(st.integers(1, max(1, deg - 1))) if deg > 1 else 1
        q = draw(pt)
        pts[j] = [pts[j][0] + k * q[0], pts[j][1] + k * q[1]]
    elif tag == 'axis':
        pts = [draw(pt) for _ in range(n)]
        if draw(st.booleans()):
            pts = [[p[0], pts[0][1]] for p in pts]
        else:
            pts = [[pts[0][0], p[1]] for p in pts]
    elif tag == 'symmetric':
        # symmetric control polygons: cusps / loops
        a, b = draw(pt), draw(pt)
        if deg == 3:
            pts = [a, [b[0], b[1]], [a[0], b[1]], [b[0], a[1]]]
        else:
            pts = [a, b, [a[0], a[1]]]
    else:
        raise ValueError(tag)
    pts = [[float(p[0]), float(p[1])] for p in pts]
    return tag, pts


def bezier_spec(deg_strategy=st.sampled_from([1, 2, 3]), scale_strategy=scales, classes=None,
                need_distinct=True):
    @st.composite
    def s(draw):
        deg = draw(deg_strategy)
        scale = draw(scale_strategy)
        tag, pts = draw(bezier_pts(deg, scale, classes))
        if need_distinct and not pts_distinct(pts):
            pts[-1] = [pts[-1][0] + scale, pts[-1][1] + scale / 2]
        if deg == 1 and pts[0] == pts[1]:
            pts[1] = [pts[1][0] + scale, pts[1][1]]
        return {'tag': tag, 'scale': scale, 'spec': ['LQC'[deg - 1]] + pts}
    return s()


# ---------------------------------------------------------------------------
# arcs, generated from the centre form
# ---------------------------------------------------------------------------

def ellipse_point(center, rx, ry, phi_deg, ang_deg):
    phi = math.radians(phi_deg)
    a = math.radians(ang_deg)
    x = rx * math.cos(a)
    y = ry * math.sin(a)
    return [center[0] + x * math.cos(phi) - y * math.sin(phi),
            center[1] + x * math.sin(phi) + y * math.cos(phi)]


rotations = st.one_of(st.sampled_from([0.0, 0.0, 90.0, -90.0, 180.0, 270.0, 360.0, 450.0, 45.0, 30.0]),
                      floats_in(-720.0, 720.0), st.integers(-360, 360).map(float))


@st.composite
def arc_center_form(draw, scale_strategy=scales, circular=None, rotated=None, max_ecc=1e3):
    """Returns dict with the centre form and the endpoint form derived from it.
    delta in (-360, 360) \\ {0}, |delta| bounded away from 0 and 360."""
    scale = draw(scale_strategy)
    center = draw(point(scale))
    rx = draw(st.one_of(st.sampled_from([1.0, 2.0, 0.5, 3.0, 10.0]), floats_in(0.05, 20.0))) * scale
    if circular is True or (circular is None and draw(st.integers(0, 3)) == 0):
        ry = rx
    else:
        ecc = draw(st.one_of(floats_in(0.2, 5.0), floats_in(1.0 / max_ecc, max_ecc)))
        ry = rx * ecc
    if rotated is False:
        rot = 0.0
    elif rotated is True:
        rot = draw(rotations.filter(lambda r: r % 360 != 0))
    else:
        rot = draw(rotations)
    theta1 = draw(st.one_of(st.sampled_from([0.0, 90.0, 180.0, -90.0, 45.0, -135.0]), floats_in(-180.0, 180.0)))
    mag = draw(st.one_of(st.sampled_from([90.0, 180.0, 270.0, 45.0, 10.0, 350.0, 179.0, 181.0]),
                         floats_in(1.0, 359.0), floats_in(1.0, 359.0)))
    sweep = draw(st.integers(0, 1))
    delta = mag if sweep else -mag
    large = 1 if mag > 180.0 else 0
    start = ellipse_point(center, rx, ry, rot, theta1)
    end = ellipse_point(center, rx, ry, rot, theta1 + delta)
    return {'scale': scale, 'center': center, 'rx': rx, 'ry': ry, 'rot': rot, 'theta1': theta1,
            'delta': delta, 'spec': ['A', start, [rx, ry], rot, large, sweep, end]}


@st.composite
def arc_endpoint_form(draw, scale_strategy=scales):
    """Directly generated endpoint parameters (radii may be too small)."""
    scale = draw(scale_strategy)
    start = draw(point(scale))
    end = draw(point(scale))
    if start == end:
        end = [end[0] + scale, end[1]]
    rx = draw(st.one_of(st.sampled_from([1.0, 2.0, 0.5, 1e-3, 100.0]), floats_in(1e-3, 1e3))) * scale
    ry = draw(st.one_of(st.just(rx / scale), floats_in(1e-3, 1e3))) * scale
    sx = draw(st.sampled_from([1, 1, 1, -1]))
    sy = draw(st.sampled_from([1, 1, 1, -1]))
    rot = draw(rotations)
    return {'scale': scale, 'spec': ['A', start, [sx * rx, sy * ry], rot,
                                    draw(st.integers(0, 1)), draw(st.integers(0, 1)), end]}


def any_seg_spec(scale_strategy=scales, arcs=True, classes=None):
    opts = [bezier_spec(scale_strategy=scale_strategy, classes=classes).map(lambda d: d['spec'])] * 3
    if arcs:
        opts.append(arc_center_form(scale_strategy=scale_strategy).map(lambda d: d['spec']))
    return st.one_of(*opts)


# ---------------------------------------------------------------------------
# paths
# ---------------------------------------------------------------------------

def _shift_spec(spec, dx, dy):
    out = [spec[0]]
    for i, v in enumerate(spec[1:], 1):
        if spec[0] == 'A' and i in (2, 3, 4, 5):
            out.append(v)
        else:
            out.append([v[0] + dx, v[1] + dy])
    return out


def _scale_spec_about_start(spec, m):
    s0 = spec[1]
    out = [spec[0]]
    for i, v in enumerate(spec[1:], 1):
        if spec[0] == 'A' and i == 2:
            out.append([v[0] * m, v[1] * m])
        elif spec[0] == 'A' and i in (3, 4, 5):
            out.append(v)
        else:
            out.append([s0[0] + m * (v[0] - s0[0]), s0[1] + m * (v[1] - s0[1])])
    return out


@st.composite
def chain_specs(draw, min_size=1, max_size=6, scale=None, arcs=True, closed=None,
                classes=None, break_prob=0, unequal=False, zero_len_prob=0, kinds=None):
    """A list of segment specs chained end-to-start exactly (continuous), by
    translating each generated segment so it starts where the previous ended
    and then forcing exact equality of the joint.  With break_prob>0 some
    joints are left discontinuous; unequal=True gives segments very different
    sizes (factor 1e-6..10); zero_len_prob inserts zero-length segments at
    non-leading positions."""
    sc = scale if scale is not None else draw(scales)
    n = draw(st.integers(min_size, max_size))
    specs = []
    cur = draw(point(sc))
    for i in range(n):
        if i > 0 and zero_len_prob and draw(st.integers(0, 99)) < zero_len_prob:
            k = draw(st.sampled_from('LQC'))
            specs.append([k] + [list(cur) for _ in range({'L': 2, 'Q': 3, 'C': 4}[k])])
            continue
        s = draw(any_seg_spec(scale_strategy=st.just(sc), arcs=arcs, classes=classes))
        if kinds is not None and s[0] not in kinds:
            s = draw(bezier_spec(deg_strategy=st.sampled_from([{'L': 1, 'Q': 2, 'C': 3}[k] for k in kinds if k in 'LQC']),
                                 scale_strategy=st.just(sc), classes=classes))['spec']
        if unequal:
            m = draw(st.sampled_from([1.0, 1.0, 1.0, 1e-6, 1e-3, 0.1, 10.0]))
            if m != 1.0:
                s = _scale_spec_about_start(s, m)
        if break_prob and i > 0 and draw(st.integers(0, 99)) < break_prob:
            cur = draw(point(sc))
            if cur == spec_end(specs[-1]):
                cur = [cur[0] + sc, cur[1]]
        st0 = spec_start(s)
        s = _shift_spec(s, cur[0] - st0[0], cur[1] - st0[1])
        s[1] = list(cur)
        if s[0] == 'L' and s[1] == s[2]:
            s[2] = [s[2][0] + sc, s[2][1] + sc]
        if s[0] == 'A' and s[1] == s[6]:
            s[6] = [s[6][0] + sc, s[6][1]]
        specs.append(s)
        cur = list(spec_end(s))
    want_closed = draw(st.booleans()) if closed is None else closed
    if want_closed and len(specs) >= 2 and not break_prob:
        first = spec_start(specs[0])
        last = specs[-1]
        if last[1] != first and not (last[0] in 'LA' and last[1] == first):
            last[-1] = list(first)
        else:
            mid = [first[0] + sc, first[1] + sc]
            last[-1] = mid
            specs.append(['L', list(mid), list(first)])
    return specs


def path_is_continuous(specs):
    return all(a[-1] == b[1] for a, b in zip(specs, specs[1:]))


def path_is_closed(specs):
    return path_is_continuous(specs) and specs[0][1] == specs[-1][-1]
