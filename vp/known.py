"""Matchers for the entries of /verif/known_findings.txt.

A matcher is a predicate over (case, bucket, message, details, config) that
describes ONE root cause by its call site and input class -- never "any failure
of property X".  known_findings.txt names the matcher of each `known:` line with
match=<name>; only matchers named there are active.
"""
import os

from .core import VERIF_DIR, load_known

MATCHERS = {}


def matcher(name):
    def deco(fn):
        MATCHERS[name] = fn
        return fn
    return deco


def matchers_for(prop_id):
    out = []
    for kf in load_known(prop_id):
        fn = MATCHERS.get(kf.get('match'))
        if fn is not None:
            out.append((kf.get('id'), fn))
    return out
