"""Matchers for the entries of /verif/known_findings.txt.

A matcher is a predicate over (case, bucket, message, details, config) that
describes ONE root cause by its call site and input class -- never "any failure
of property X".  known_findings.txt names the matcher of each `known:` line with
match=<name>; only matchers named there are active.
"""
import os

from .core import VERIF_DIR, load_known

MATCHERS = {}


def matcher(name):
    def deco(fn):
        MATCHERS[name] = fn
        return fn
    return deco


def matchers_for(prop_id):
    out = []
    for kf in load_known(prop_id):
        fn = MATCHERS.get(kf.get('match'))
        if fn is not None:
            out.append((kf.get('id'), fn))
    return out


def _arc_lambda(spec):
    from .ref import arc_ref
    return arc_ref.lam(spec[1], spec[2][0], spec[2][1], spec[3], spec[6])


@matcher('arc_chord_tiny_vs_radius')
def _kf_arc_tiny_chord(case, bucket, message, details, config):
    """C04: radii more than ~1e6 times the chord (Lambda < 1e-12): the angle between the unit-circle images of start
    and end is below acos resolution, delta collapses to 0 and becomes 0/+-360."""
    if not bucket.startswith('C04/'):
        return False
    spec = case.get('spec')
    return bool(spec) and spec[0] == 'A' and 0 < _arc_lambda(spec) < 1e-12


@matcher('cubic_bbox_tiny_extent_far_from_origin')
def _kf_bbox_tiny(case, bucket, message, details, config):
    """C08: bezier_real_minmax computes the critical points of a cubic from the control values themselves; when the
    curve's extent is below ~1e-5 of its coordinate magnitude the discriminant cancels and an interior extreme is
    misplaced (by up to the full extent at extent/|position| ~ 1e-8)."""
    if not (bucket.startswith('C08/containment/C') or bucket.startswith('C08/tightness/C')):
        return False
    if 'err' in details and details.get('axis_ext', 0) > 0:
        # judged on the object that was actually queried (it may be derived from the case's segment by a translation etc.):
        # extent below 1e-5 of the coordinates, and a miss no larger than the cancellation in the discriminant explains
        # (~12 eps * pos^2 / extent, measured on the pinned tree over 20000 cubics at offsets 1e4..1e9); anything larger is something else
        return (details['axis_ext'] < 1e-5 * details['axis_pos']
                and details['err'] <= 64 * 2.0 ** -52 * details['axis_pos'] ** 2 / details['axis_ext'])
    from . import gen
    specs = [case['spec']] if case.get('what') == 'seg' else case.get('segs', [])
    for spec in specs:
        if spec[0] != 'C':
            continue
        pts = [gen.C(p) for p in spec[1:]]
        for comp in (lambda z: z.real, lambda z: z.imag):
            vals = [comp(z) for z in pts]
            ext = max(vals) - min(vals)
            pos = max(abs(v) for v in vals)
            if 0 < ext < 1e-5 * pos:
                return True
    return False


@matcher('cubic_near_cusp_scipy_quad')
def _kf_cubic_near_cusp(case, bucket, message, details, config):
    """C06: CubicBezier.length through scipy.integrate.quad on a cubic whose speed dips to between 1e-4 and 1e-2 of
    its maximum (a narrow V-shaped kink of |B'(t)| that quad's error estimate does not see; the thorough tier
    showed deviations of 3e-6..5e-5 up to a dip ratio of 4e-2, so the class is min speed in (1e-4, 5e-2) x max speed)."""
    if config != 'scipy':
        return False
    if not any(bucket.startswith('C06/' + b) for b in ('outside_bracket/C', 'vs_quadrature/C', 'additivity/C')):
        return False
    if bucket.endswith('/singular'):
        return False
    specs = [case['spec']] if case.get('what') == 'seg' else case.get('segs', [])
    from .props import c06
    from . import gen
    for spec in specs:
        if spec[0] != 'C':
            continue
        cp = [gen.C(p) for p in spec[1:]]
        vmin, tmin, vmax = c06.bez_speed_min(cp, 0.0, 1.0)
        if vmax > 0 and 1e-4 * vmax < vmin < 5e-2 * vmax:
            return True
    return False


@matcher('path_crop_shorter_than_joint_snapping')
def _kf_crop_snap(case, bucket, message, details, config):
    """C09: Path.cropped snaps segment parameters with np.isclose (rtol 1e-5 at t~1, atol 1e-8 at t~0); a crop
    shorter than that resolution that straddles or touches a joint has its two ends snapped in opposite directions
    and the result runs the wrong way round (nearly the whole path)."""
    if not bucket.startswith('C09/path/cropped/'):
        return False
    if case.get('what') != 'path':
        return False
    return bool(case.get('kf04_witness')) or abs(case.get('T1', 0) - case.get('T0', 1)) < 1e-4


def _arc_span_deg(spec):
    from .ref import arc_ref
    cf = arc_ref.endpoint_to_center(spec[1], spec[2][0], spec[2][1], spec[3], spec[4], spec[5], spec[6])
    return abs(cf['delta_deg'])


@matcher('arc_point_to_t_small_span')
def _kf_point_to_t(case, bucket, message, details, config):
    """C11/C12: Arc.point_to_t matches an acos-derived and an asin-derived parameter with np.isclose; for an unrotated
    arc spanning only a few degrees the acos branch is ill-conditioned near 0/180 degrees (asin near +-90) and a point
    that lies on the arc is rejected, so Arc.intersect(Arc/Line) loses the crossing -- in one operand order or in both."""
    if not (bucket.startswith('C11/swap_asymmetry/A') or bucket.startswith('C11/swap_asymmetry/LA') or bucket.startswith('C12/a/lost/')):
        return False
    specs = [case.get('s1'), case.get('s2')]
    if not all(specs):
        return False
    arcs = [s for s in specs if s[0] == 'A']
    if not arcs or any(s[0] in 'QC' for s in specs):
        return False          # only the algebraic unrotated Arc/Arc and Arc/Line branches use point_to_t
    if any(s[3] % 360 != 0 for s in arcs):
        return False
    return any(_arc_span_deg(s) < 5.0 for s in arcs)


@matcher('arc_very_eccentric_scipy_quad')
def _kf_arc_ecc(case, bucket, message, details, config):
    """C06: Arc.length through scipy.integrate.quad for an ellipse of eccentricity (radius ratio) >= 100: the speed varies by
    that factor over a short stretch and quad's error estimate is off by a few 1e-6 relative (allowed 1e-6)."""
    if config != 'scipy':
        return False
    if not any(bucket.startswith('C06/' + b) for b in ('outside_bracket/A', 'vs_quadrature/A', 'additivity/A')):
        return False
    specs = [case['spec']] if case.get('what') == 'seg' else case.get('segs', [])
    for sp in specs:
        if sp[0] == 'A':
            rx, ry = abs(sp[2][0]), abs(sp[2][1])
            if min(rx, ry) > 0 and max(rx, ry) >= 100 * min(rx, ry):
                return True
    return False
