"""Matchers for the entries of /verif/known_findings.txt.

A matcher is a predicate over (case, bucket, message, details, config) that
describes ONE root cause by its call site and input class -- never "any failure
of property X".  known_findings.txt names the matcher of each `known:` line with
match=<name>; only matchers named there are active.
"""
import os

from .core import VERIF_DIR, load_known

MATCHERS = {}


def matcher(name):
    def deco(fn):
        MATCHERS[name] = fn
        return fn
    return deco


def matchers_for(prop_id):
    out = []
    for kf in load_known(prop_id):
        fn = MATCHERS.get(kf.get('match'))
        if fn is not None:
            out.append((kf.get('id'), fn))
    return out


def _arc_lambda(spec):
    from .ref import arc_ref
    return arc_ref.lam(spec[1], spec[2][0], spec[2][1], spec[3], spec[6])


@matcher('arc_chord_tiny_vs_radius')
def _kf_arc_tiny_chord(case, bucket, message, details, config):
    """C04: radii more than ~1e6 times the chord (Lambda < 1e-12): the angle between the unit-circle images of start
    and end is below acos resolution, delta collapses to 0 and becomes 0/+-360."""
    if not bucket.startswith('C04/'):
        return False
    spec = case.get('spec')
    return bool(spec) and spec[0] == 'A' and 0 < _arc_lambda(spec) < 1e-12
