"""Shared driver for the property checks.

Every check is a pure function of (tree under test, tier, VERIF_SEED).
A property module (vp/props/cNN.py) provides

    ID, RULE, ASSUMPTIONS, CONFIGS, BUDGET, strategy(tier, config),
    check(case, ctx)            -- raise via ctx.fail(...) on a violation
    exhaustive(tier, config)    -- optional: iterable of cases enumerated completely
    REQUIRED = [counter names that must be non-zero]   (vacuity guard)

Cases are plain JSON data (numbers, strings, lists, dicts) so that the replay
file is the case itself.  The driver shards the work over worker processes
(spawned, so that the "no scipy" configuration can be set up before the library is
imported), collects failures by root-cause bucket, lets Hypothesis shrink one
example per new bucket, writes replay files and the evidence file, and prints
VIOLATION / KNOWN-FINDING lines.
"""
from __future__ import annotations

import hashlib
import importlib
import json
import math
import os
import sys
import time
import traceback

VERIF_DIR = os.path.dirname(os.path.dirname(os.path.abspath(__file__)))
REPO_DIR = os.environ.get('VERIF_REPO', '/repo')
NPROC = int(os.environ.get('VERIF_NPROC', '16'))


class Violation(Exception):
    def __init__(self, bucket, message, details=None):
        Exception.__init__(self, '%s: %s' % (bucket, message))
        self.bucket = bucket
        self.message = message
        self.details = details or {}


class KnownHit(Exception):
    def __init__(self, kf_id, bucket, message):
        Exception.__init__(self, kf_id)
        self.kf_id = kf_id
        self.bucket = bucket
        self.message = message


class Discard(Exception):
    """The generated case is outside the property's domain (counted)."""

    def __init__(self, why):
        Exception.__init__(self, why)
        self.why = why


def canon(case):
    return json.dumps(case, sort_keys=True, default=_json_default)


def _json_default(o):
    if isinstance(o, complex):
        return [o.real, o.imag]
    try:
        import numpy as np
        if isinstance(o, np.generic):
            return o.item()
        if isinstance(o, np.ndarray):
            return o.tolist()
    except Exception:
        pass
    if isinstance(o, (set, frozenset, tuple)):
        return list(o)
    return repr(o)


def hash64(s):
    if not isinstance(s, (bytes, str)):
        s = canon(s)
    if isinstance(s, str):
        s = s.encode('utf8')
    return int.from_bytes(hashlib.blake2b(s, digest_size=8).digest(), 'big')


def trim(obj, limit=1500):
    s = canon(obj)
    if len(s) <= limit:
        return json.loads(s)
    return {'truncated_json': s[:limit] + '...'}


class Ctx(object):
    """Per-shard bookkeeping handed to check()."""

    def __init__(self, prop_id, tier, config, matchers=None, max_samples=4):
        self.prop_id = prop_id
        self.tier = tier
        self.config = config
        self.counters = {}
        self.nontrivial_hashes = set()
        self.samples = []
        self.max_samples = max_samples
        self.matchers = matchers or []
        self.case = None
        self.case_nontrivial = False

    # -- statistics --------------------------------------------------------
    def count(self, key, n=1):
        self.counters[key] = self.counters.get(key, 0) + n

    def nontrivial(self, key=None, sample=None):
        """Mark the current case (or `key`) as non-trivial by the stated rule."""
        h = hash64(canon(self.case if key is None else key) + '|' + self.config)
        if h not in self.nontrivial_hashes:
            self.nontrivial_hashes.add(h)
            if len(self.samples) < self.max_samples:
                self.samples.append(trim(sample if sample is not None else
                                         (self.case if key is None else key)))
        self.case_nontrivial = True

    # -- verdicts ----------------------------------------------------------
    def fail(self, bucket, message, **details):
        bucket = '%s/%s' % (self.prop_id, bucket)
        for kf_id, fn in self.matchers:
            try:
                hit = fn(self.case, bucket, message, details, self.config)
            except Exception:
                hit = False
            if hit:
                raise KnownHit(kf_id, bucket, message)
        raise Violation(bucket, message, details)

    def discard(self, why):
        raise Discard(why)

    def lib(self, site, fn, *args, **kwargs):
        """Call library code; an exception is a violation at `site`."""
        try:
            return fn(*args, **kwargs)
        except (Violation, KnownHit, Discard):
            raise
        except Exception as e:  # noqa
            self.fail('%s/raises/%s' % (site, type(e).__name__),
                      '%s raised %s: %s' % (site, type(e).__name__, str(e)[:300]))

    def check(self, cond, bucket, message, **details):
        if not cond:
            self.fail(bucket, message, **details)


# ---------------------------------------------------------------------------
# worker side
# ---------------------------------------------------------------------------

def setup_library(config):
    """Make `import svgpathtools` resolve to the tree under test, in `config`."""
    if config == 'noscipy':
        # same effect as a machine without scipy: the import inside
        # svgpathtools/path.py raises ImportError and the fallback is taken
        for k in list(sys.modules):
            if k == 'scipy' or k.startswith('scipy.'):
                del sys.modules[k]
        sys.modules['scipy'] = None
    if REPO_DIR not in sys.path[:1]:
        sys.path.insert(0, REPO_DIR)
    import warnings
    warnings.simplefilter('ignore')
    import numpy as np
    np.seterr(all='ignore')
    import svgpathtools
    f = os.path.realpath(svgpathtools.__file__)
    if not f.startswith(os.path.realpath(REPO_DIR) + os.sep):
        raise RuntimeError('svgpathtools imported from %s, not from %s' % (f, REPO_DIR))
    import svgpathtools.path as P
    if config == 'noscipy' and P._quad_available:
        raise RuntimeError('noscipy configuration did not take effect')
    if config == 'scipy' and not P._quad_available:
        raise RuntimeError('scipy configuration requested but scipy is unavailable')
    return svgpathtools


def load_prop(prop_id):
    return importlib.import_module('vp.props.%s' % prop_id.lower())


def load_matchers(prop_id):
    from . import known
    return known.matchers_for(prop_id)


class CaseTimeout(BaseException):
    pass


_ARMED = [False]
_FIRED = [False]


def _alarm(signum, frame):
    # the timer repeats (see run_case); deliveries after the case has ended are ignored
    if _ARMED[0]:
        _FIRED[0] = True
        raise CaseTimeout()


def _disarm():
    import signal
    _ARMED[0] = False
    signal.setitimer(signal.ITIMER_REAL, 0)


def _reset_numpy_error_state():
    """numpy's floating-point error handling is process-global state; a per-case alarm that fires inside numpy's own errstate
    bookkeeping (numpy.linalg installs a callback that raises LinAlgError on 'invalid') can leave it altered for all later cases of
    the worker.  Every case starts from numpy's defaults."""
    try:
        import numpy as np
        np.seterr(divide='warn', over='warn', under='ignore', invalid='warn')
        np.seterrcall(None)
    except Exception:
        pass


def run_case(mod, case, ctx, res, deadline=None):
    """Run one case, classify the outcome into res.  A case that exceeds the module's
    CASE_TIMEOUT is counted as inconclusive (never as a violation)."""
    _FIRED[0] = False
    _reset_numpy_error_state()
    try:
        out = _run_case(mod, case, ctx, res)
        if _FIRED[0] and out is not None:
            # the timer fired during this case and the exception it raised was swallowed by a bare `except:` inside the library,
            # which then carried on in an undefined state (seen as a LinAlgError out of numpy.roots on a loaded machine): whatever
            # came out of the case afterwards is not a verdict -- the case is inconclusive like any other timed-out one
            res['case_timeouts'] = res.get('case_timeouts', 0) + 1
            return None
        return out
    except CaseTimeout:
        # delivered in the few instructions between the end of check() and the disarming
        _disarm()
        res['case_timeouts'] = res.get('case_timeouts', 0) + 1
        return None


def _run_case(mod, case, ctx, res):
    import signal
    ctx.case = case
    ctx.case_nontrivial = False
    res['evaluations'] += 1
    limit = float(os.environ.get('VERIF_CASE_TIMEOUT') or getattr(mod, 'CASE_TIMEOUT', 120))
    signal.signal(signal.SIGALRM, _alarm)
    # repeating: library code has bare 'except:' blocks that can swallow the first delivery
    _ARMED[0] = True
    signal.setitimer(signal.ITIMER_REAL, limit, 0.25)
    try:
        mod.check(case, ctx)
        _ARMED[0] = False
        return None
    except CaseTimeout:
        _ARMED[0] = False
        res['case_timeouts'] = res.get('case_timeouts', 0) + 1
        return None
    except Discard as d:
        _ARMED[0] = False
        res['discarded'] += 1
        ctx.count('discard:' + d.why)
        return None
    except KnownHit as k:
        _ARMED[0] = False
        res['known_hits'][k.kf_id] = res['known_hits'].get(k.kf_id, 0) + 1
        return None
    except Violation as v:
        _ARMED[0] = False
        return v
    except Exception as e:
        _ARMED[0] = False
        # an exception that was raised inside the library under test, reached through a call the property module did not wrap in
        # ctx.lib(): the library's doing (a violation of "handles the input"), not a harness error.  Exceptions raised in harness
        # code proper still propagate (exit 2).
        import traceback
        frames = traceback.extract_tb(e.__traceback__)
        lib = os.path.join(os.path.realpath(REPO_DIR), 'svgpathtools')
        inner = [f for f in frames if os.path.realpath(f.filename).startswith(lib)]
        if not inner or isinstance(e, (RuntimeError,)) and 'harness' in str(e):
            raise
        return Violation('%s/raises/%s/%s' % (ctx.prop_id, type(e).__name__, inner[-1].name),
                         'library call raised %s: %s (in %s, line %d)' % (type(e).__name__, str(e)[:200], inner[-1].name, inner[-1].lineno))
    finally:
        _disarm()


def _record_failure(res, v, case, origin):
    if v.bucket not in res['failures']:
        res['failures'][v.bucket] = {'bucket': v.bucket, 'message': v.message,
                                     'details': trim(v.details, 3000),
                                     'case': json.loads(canon(case)), 'origin': origin,
                                     'count': 1}
    else:
        res['failures'][v.bucket]['count'] += 1


def shard_task(args):
    """Executed in a spawned worker. Returns a picklable result dict."""
    (prop_id, tier, config, seed, shard, nshards, n_examples, mode, target_bucket,
     time_limit) = args
    t0 = time.time()
    res = {'evaluations': 0, 'discarded': 0, 'known_hits': {}, 'failures': {},
           'counters': {}, 'hashes': set(), 'samples': [], 'errors': [],
           'shard': shard, 'config': config, 'timed_out': 0, 'exhaustive_cases': 0,
           'shrunk': None}
    try:
        _old_hook = sys.unraisablehook

        def _hook(u):
            if isinstance(u.exc_value, CaseTimeout):
                return   # the per-case alarm fired inside a GC callback or __del__: nothing to report
            _old_hook(u)
        sys.unraisablehook = _hook
        setup_library(config)
        mod = load_prop(prop_id)
        ctx = Ctx(prop_id, tier, config, matchers=load_matchers(prop_id))
        deadline = time_limit if time_limit > 1e9 else t0 + time_limit   # absolute wall-clock deadline set by the parent

        if mode == 'exhaustive':
            for i, case in enumerate(mod.exhaustive(tier, config)):
                if i % nshards != shard:
                    continue
                if time.time() > deadline:
                    res['timed_out'] += 1
                    break
                res['exhaustive_cases'] += 1
                v = run_case(mod, case, ctx, res)
                if v is not None:
                    _record_failure(res, v, case, 'exhaustive')
        else:
            import hypothesis
            from hypothesis import given, settings, HealthCheck, Phase
            import hypothesis.internal.conjecture.engine as eng
            eng.MAX_SHRINKING_SECONDS = 20 if tier == 'quick' else 90
            strat = mod.strategy(tier, config)
            last = {'case': None, 'v': None}

            def body(case):
                if time.time() > deadline:
                    res['timed_out'] += 1
                    return
                v = run_case(mod, case, ctx, res)
                if v is None:
                    return
                if mode == 'collect':
                    _record_failure(res, v, case, 'generated')
                    return
                # shrink mode: fail only for the target bucket
                if v.bucket == target_bucket:
                    last['case'] = json.loads(canon(case))
                    last['v'] = v
                    raise AssertionError(v.bucket)

            phases = [Phase.generate] if mode == 'collect' else [Phase.generate, Phase.shrink]
            test = given(strat)(body)
            test = settings(max_examples=n_examples, database=None, deadline=None,
                            derandomize=False, report_multiple_bugs=False,
                            suppress_health_check=list(HealthCheck), phases=phases,
                            print_blob=False, verbosity=hypothesis.Verbosity.quiet)(test)
            test = hypothesis.seed(seed)(test)
            try:
                test()
            except AssertionError:
                if mode != 'shrink':
                    raise
            if mode == 'shrink' and last['case'] is not None:
                res['shrunk'] = {'bucket': last['v'].bucket, 'message': last['v'].message,
                                 'details': trim(last['v'].details, 3000),
                                 'case': last['case']}
        res['counters'] = ctx.counters
        res['hashes'] = ctx.nontrivial_hashes
        res['samples'] = ctx.samples
    except BaseException as e:  # harness error
        res['errors'].append(''.join(traceback.format_exception(type(e), e, e.__traceback__))[-4000:])
    res['wall_s'] = time.time() - t0
    return res


def replay_task(args):
    """Run one stored case; returns (status, bucket, message, kf_id)."""
    prop_id, tier, config, case = args
    try:
        setup_library(config)
        mod = load_prop(prop_id)
        ctx = Ctx(prop_id, tier, config, matchers=load_matchers(prop_id))
        ctx.case = case
        try:
            mod.check(case, ctx)
            return ('held', None, None, None)
        except Discard as d:
            return ('discarded', None, d.why, None)
        except KnownHit as k:
            return ('known', k.bucket, k.message, k.kf_id)
        except Violation as v:
            return ('violation', v.bucket, v.message, None)
    except BaseException as e:
        return ('error', None, ''.join(traceback.format_exception(type(e), e, e.__traceback__))[-4000:], None)


# ---------------------------------------------------------------------------
# parent side
# ---------------------------------------------------------------------------

def _pool():
    import multiprocessing as mp
    from concurrent.futures import ProcessPoolExecutor
    return ProcessPoolExecutor(max_workers=NPROC, mp_context=mp.get_context('spawn'), max_tasks_per_child=1)


def write_replay(prop_id, config, tier, seed, failure):
    d = os.path.join(VERIF_DIR, 'replays', prop_id)
    os.makedirs(d, exist_ok=True)
    doc = {'property': prop_id, 'config': config, 'tier': tier, 'seed': seed,
           'bucket': failure['bucket'], 'message': failure['message'],
           'details': failure.get('details'), 'case': failure['case']}
    name = '%016x.json' % hash64(canon([failure['bucket'], failure['case'], config]))
    path = os.path.join(d, name)
    with open(path, 'w') as f:
        json.dump(doc, f, indent=1, sort_keys=True, default=_json_default)
    return path


def load_known(prop_id):
    """Parse known_findings.txt -> list of dicts for this property."""
    out = []
    path = os.path.join(VERIF_DIR, 'known_findings.txt')
    if not os.path.exists(path):
        return out
    for line in open(path):
        line = line.strip()
        if not line.startswith('known:'):
            continue
        fields = {}
        rest = []
        for tok in line[len('known:'):].split():
            if '=' in tok and not rest and tok.split('=', 1)[0] in ('property', 'id', 'match', 'witness', 'config'):
                k, v = tok.split('=', 1)
                fields[k] = v
            else:
                rest.append(tok)
        fields['text'] = ' '.join(rest)
        if fields.get('property') == prop_id:
            out.append(fields)
    return out


def run_check(prop_id, tier, seed):
    t0 = time.time()
    sys.path.insert(0, VERIF_DIR)
    mod_meta = _meta(prop_id)
    configs = mod_meta['CONFIGS']
    budget = mod_meta['BUDGET'][tier]
    # one wall-clock budget for the whole run (all shards share the absolute deadline)
    time_limit = t0 + mod_meta.get('TIME_LIMIT', {}).get(tier, 240 if tier == 'quick' else 3000)
    if os.environ.get('VERIF_TIME_LIMIT'):
        # a shorter wall-clock budget for exploratory runs (the run is then reported as truncated / inconclusive)
        time_limit = min(time_limit, t0 + float(os.environ['VERIF_TIME_LIMIT']))
    nshards = NPROC if tier == 'quick' else NPROC * 4
    violations = []      # (bucket, replay path)
    known_lines = []
    errors = []
    known = load_known(prop_id)
    corpus_dir = os.path.join(VERIF_DIR, 'corpus', prop_id)
    corpus_files = sorted(os.path.join(corpus_dir, f) for f in os.listdir(corpus_dir)
                          if f.endswith('.json')) if os.path.isdir(corpus_dir) else []

    totals = {'evaluations': 0, 'discarded': 0, 'known_hits': {}, 'counters': {},
              'hashes': set(), 'samples': [], 'timed_out': 0, 'exhaustive_cases': 0,
              'per_config': {}}
    failures = {}  # bucket -> failure (first seen), plus config/shard info

    with _pool() as pool:
        # 1. regression corpus and known-finding witnesses ---------------------
        replay_jobs = []
        for path in corpus_files:
            doc = json.load(open(path))
            cfg = doc.get('config', 'scipy')
            if cfg not in configs:
                cfg = configs[0]
            replay_jobs.append((path, cfg, pool.submit(replay_task, (prop_id, tier, cfg, doc['case']))))
        witness_of = {}
        for kf in known:
            w = kf.get('witness')
            if w:
                witness_of[os.path.join(VERIF_DIR, w)] = kf
        reported_kf = set()
        corpus_stats = {'files': len(corpus_files), 'held': 0, 'known': 0, 'violation': 0}
        for path, cfg, fut in replay_jobs:
            status, bucket, message, kf_id = fut.result()
            if status == 'error':
                errors.append('corpus %s: %s' % (path, message))
            elif status == 'violation':
                corpus_stats['violation'] += 1
                violations.append((bucket, path, message))
            elif status == 'known':
                corpus_stats['known'] += 1
                reported_kf.add(kf_id)
            else:
                corpus_stats['held'] += 1
        for kf in known:
            if kf.get('id') in reported_kf:
                known_lines.append('KNOWN-FINDING: property=%s %s %s' % (prop_id, kf.get('id'), kf['text']))
        totals['corpus'] = corpus_stats

        # 2. exhaustive sub-domains -----------------------------------------------
        jobs = []
        if mod_meta['HAS_EXHAUSTIVE']:
            for ci, config in enumerate(configs):
                for shard in range(NPROC):
                    jobs.append(pool.submit(shard_task, (prop_id, tier, config, 0, shard, NPROC, 0,
                                                          'exhaustive', None, time_limit)))
        # 3. generated cases -------------------------------------------------------
        for ci, config in enumerate(configs):
            n = budget[config] if isinstance(budget, dict) else budget
            if n <= 0:
                continue
            per = max(1, int(math.ceil(n / float(nshards))))
            for shard in range(nshards):
                s = (seed * 1000003 + ci * 7919 + shard) % (2 ** 63)
                jobs.append(pool.submit(shard_task, (prop_id, tier, config, s, shard, nshards, per,
                                                      'collect', None, time_limit)))
        results = [j.result() for j in jobs]
        for r in results:
            if r['errors']:
                errors.extend(r['errors'])
            totals['evaluations'] += r['evaluations']
            totals['discarded'] += r['discarded']
            totals['timed_out'] += r['timed_out']
            totals['case_timeouts'] = totals.get('case_timeouts', 0) + r.get('case_timeouts', 0)
            totals['exhaustive_cases'] += r['exhaustive_cases']
            pc = totals['per_config'].setdefault(r['config'], {'evaluations': 0})
            pc['evaluations'] += r['evaluations']
            for k, v in r['known_hits'].items():
                totals['known_hits'][k] = totals['known_hits'].get(k, 0) + v
            for k, v in r['counters'].items():
                totals['counters'][k] = totals['counters'].get(k, 0) + v
            totals['hashes'] |= r['hashes']
            if len(totals['samples']) < 6:
                totals['samples'].extend(r['samples'][:2])
            for b, f in r['failures'].items():
                if b not in failures:
                    f = dict(f)
                    f['config'] = r['config']
                    failures[b] = f
                    f['_job'] = None
        # remember how to regenerate each failure for shrinking
        shrink_jobs = []
        if failures:
            # find (config, shard seed) that produced each bucket first
            idx = 0
            job_args = []
            if mod_meta['HAS_EXHAUSTIVE']:
                for ci, config in enumerate(configs):
                    for shard in range(NPROC):
                        job_args.append(None)
            for ci, config in enumerate(configs):
                n = budget[config] if isinstance(budget, dict) else budget
                if n <= 0:
                    continue
                per = max(1, int(math.ceil(n / float(nshards))))
                for shard in range(nshards):
                    s = (seed * 1000003 + ci * 7919 + shard) % (2 ** 63)
                    job_args.append((prop_id, tier, config, s, shard, nshards, per))
            for b, f in failures.items():
                if f['origin'] != 'generated':
                    continue
                for r, ja in zip(results, job_args):
                    if ja is not None and b in r['failures']:
                        shrink_jobs.append((b, pool.submit(
                            shard_task, ja + ('shrink', b, time_limit))))
                        break
            for b, fut in shrink_jobs[:12]:
                r = fut.result()
                if r['errors']:
                    # shrinking is best effort; keep the unshrunk case
                    continue
                if r['shrunk'] is not None:
                    failures[b]['case'] = r['shrunk']['case']
                    failures[b]['message'] = r['shrunk']['message']
                    failures[b]['details'] = r['shrunk']['details']
                    failures[b]['shrunk'] = True

    # 4. optional coverage-guided second engine (atheris) ---------------------------------------------------------
    fuzz_info = run_fuzz_engine(prop_id, tier, seed, mod_meta.get('FUZZ', {}).get(tier), totals, failures, errors)

    for b in sorted(failures):
        f = failures[b]
        path = write_replay(prop_id, f['config'], tier, seed, f)
        violations.append((b, path, f['message']))

    # vacuity guard -----------------------------------------------------------------
    missing = [k for k in mod_meta.get('REQUIRED', []) if not totals['counters'].get(k)]
    if missing and (totals['timed_out'] or totals.get('case_timeouts', 0)):
        # the wall-clock guard cut the run short (loaded machine): inconclusive, not a harness error
        print('NOTE: run truncated by the wall-clock guard or per-case timeouts; case classes not reached: %s' % missing)
    elif missing and not errors:
        errors.append('vacuity guard: required case classes never generated: %s' % missing)

    wall = time.time() - t0
    evidence = {
        'property_id': prop_id, 'tier': tier, 'seed': seed, 'level': 'exploration',
        'coverage': {
            'evaluations': totals['evaluations'] + totals['corpus']['files'],
            'distinct_nontrivial': len(totals['hashes']),
            'rule': mod_meta['RULE'],
            'samples': totals['samples'][:6],
            'discarded': totals['discarded'],
            'exhaustive_cases': totals['exhaustive_cases'],
            'exhaustive': False,
            'exhaustive_subdomains': mod_meta.get('EXHAUSTIVE_NOTE', ''),
            'configurations': totals['per_config'],
            'class_counters': dict(sorted(totals['counters'].items())),
            'known_finding_hits': totals['known_hits'],
            'regression_corpus': totals['corpus'],
            'cases_skipped_by_wall_clock_guard': totals['timed_out'],
            'cases_stopped_by_per_case_timeout': totals.get('case_timeouts', 0),
            'inconclusive': bool(totals['timed_out'] or totals.get('case_timeouts', 0)),
            'violation_buckets': [v[0] for v in violations],
            'coverage_guided_engine': fuzz_info,
            'tree': REPO_DIR,
        },
        'assumptions': mod_meta['ASSUMPTIONS'],
        'wall_s': round(wall, 2),
        'violations': len(violations),
    }
    # evidence/ describes runs against /repo itself; runs against a scratch copy (VERIF_REPO) go to evidence_scratch/
    evdir = 'evidence' if os.path.realpath(REPO_DIR) == os.path.realpath('/repo') else 'evidence_scratch'
    if not errors or totals['evaluations'] > 0:
        os.makedirs(os.path.join(VERIF_DIR, evdir), exist_ok=True)
        with open(os.path.join(VERIF_DIR, evdir, '%s.json' % prop_id), 'w') as f:
            json.dump(evidence, f, indent=1, sort_keys=True, default=_json_default)

    for line in known_lines:
        print(line)
    print('%s tier=%s seed=%d evaluations=%d distinct_nontrivial=%d discarded=%d known_hits=%s wall=%.1fs'
          % (prop_id, tier, seed, evidence['coverage']['evaluations'], len(totals['hashes']),
             totals['discarded'], totals['known_hits'], wall))
    if errors:
        errors = list(dict.fromkeys(errors))
        for e in errors[:3]:
            print('HARNESS-ERROR: ' + e, file=sys.stderr)
        return 2
    if violations:
        for b, path, msg in violations:
            print('  bucket=%s  %s' % (b, (msg or '')[:300]))
            print('VIOLATION property=%s replay=%s' % (prop_id, path))
        return 1
    return 0


def run_fuzz_engine(prop_id, tier, seed, plan, totals, failures, errors):
    """atheris/libFuzzer campaign driving the property's own strategy through Hypothesis's fuzz_one_input, with the
    property's oracle inside the target.  plan = (shards, runs per shard).  Skipped (and recorded) if atheris is missing."""
    if not plan:
        return {'used': False, 'reason': 'not configured for this property/tier'}
    import shutil
    import subprocess
    import tempfile
    probe = subprocess.run([sys.executable, '-c', 'import sys; sys.path.insert(0, %r); import atheris' % os.path.join(VERIF_DIR, '.deps')],
                           stdout=subprocess.DEVNULL, stderr=subprocess.DEVNULL)
    if probe.returncode != 0:
        return {'used': False, 'reason': 'atheris is not importable (run ./setup.sh); the Hypothesis/exhaustive part decides the property'}
    shards, runs = plan
    t0 = time.time()
    root = tempfile.mkdtemp(prefix='vpfuzz_%s_' % prop_id)
    info = {'used': True, 'engine': 'atheris (libFuzzer) -> hypothesis.fuzz_one_input -> property oracle', 'shards': shards,
            'runs_per_shard': runs, 'evaluations': 0, 'distinct_nontrivial': 0, 'new_buckets': []}
    try:
        procs = []
        for i in range(shards):
            d = os.path.join(root, 's%d' % i)
            os.makedirs(d)
            env = dict(os.environ)
            env['PYTHONHASHSEED'] = '0'
            p = subprocess.Popen([sys.executable, '-B', os.path.join(VERIF_DIR, 'vp', 'fuzz_engine.py'), prop_id, tier, d, str(runs),
                                  str((seed * 7919 + i) % (2 ** 31 - 1) + 1)], stdout=subprocess.DEVNULL, stderr=subprocess.DEVNULL, env=env, cwd=VERIF_DIR)
            procs.append((d, p))
        limit = 3000 if tier == 'thorough' else 240
        for d, p in procs:
            try:
                p.wait(timeout=max(5, limit - (time.time() - t0)))
            except subprocess.TimeoutExpired:
                p.kill()
                info['stopped_by_wall_clock'] = info.get('stopped_by_wall_clock', 0) + 1
        hashes = set()
        for d, p in procs:
            sp = os.path.join(d, 'stats.json')
            if os.path.exists(sp):
                st = json.load(open(sp))
                info['evaluations'] += st['evaluations']
                hashes |= set(st['hashes'])
                totals['discarded'] += st['discarded']
                for k, v in st['counters'].items():
                    totals['counters']['fuzz:' + k] = totals['counters'].get('fuzz:' + k, 0) + v
                for k, v in st['known_hits'].items():
                    totals['known_hits'][k] = totals['known_hits'].get(k, 0) + v
            fp = os.path.join(d, 'findings.jsonl')
            if os.path.exists(fp):
                for line in open(fp):
                    f = json.loads(line)
                    if f['bucket'] not in failures:
                        failures[f['bucket']] = {'bucket': f['bucket'], 'message': f['message'], 'details': {}, 'case': f['case'],
                                                 'origin': 'coverage-guided', 'count': 1, 'config': 'scipy'}
                        info['new_buckets'].append(f['bucket'])
        new = hashes - totals['hashes']
        info['distinct_nontrivial'] = len(hashes)
        info['distinct_nontrivial_not_seen_by_hypothesis_engine'] = len(new)
        totals['hashes'] |= hashes
        totals['evaluations'] += info['evaluations']
    finally:
        shutil.rmtree(root, ignore_errors=True)
    info['wall_s'] = round(time.time() - t0, 1)
    return info


def run_replay(prop_id, path):
    sys.path.insert(0, VERIF_DIR)
    doc = json.load(open(path))
    cfg = doc.get('config', 'scipy')
    with _pool() as pool:
        status, bucket, message, kf_id = pool.submit(
            replay_task, (prop_id, doc.get('tier', 'quick'), cfg, doc['case'])).result()
    if status == 'error':
        print('HARNESS-ERROR: ' + message, file=sys.stderr)
        return 2
    if status == 'violation':
        print('  bucket=%s  %s' % (bucket, message))
        print('VIOLATION property=%s replay=%s' % (prop_id, path))
        return 1
    if status == 'known':
        kf = [k for k in load_known(prop_id) if k.get('id') == kf_id]
        print('KNOWN-FINDING: property=%s %s %s' % (prop_id, kf_id, kf[0]['text'] if kf else message))
        return 0
    print('%s replay %s: %s' % (prop_id, path, status))
    return 0


def _meta(prop_id):
    """Read module metadata in a child process (the parent never imports the library)."""
    with _pool() as pool:
        return pool.submit(_meta_task, prop_id).result()


def _meta_task(prop_id):
    setup_library('scipy')
    mod = load_prop(prop_id)
    return {'CONFIGS': list(getattr(mod, 'CONFIGS', ['scipy'])), 'BUDGET': mod.BUDGET,
            'RULE': mod.RULE, 'ASSUMPTIONS': list(getattr(mod, 'ASSUMPTIONS', [])),
            'HAS_EXHAUSTIVE': hasattr(mod, 'exhaustive'),
            'EXHAUSTIVE_NOTE': getattr(mod, 'EXHAUSTIVE_NOTE', ''),
            'REQUIRED': list(getattr(mod, 'REQUIRED', [])),
            'TIME_LIMIT': getattr(mod, 'TIME_LIMIT', {}), 'FUZZ': getattr(mod, 'FUZZ', {})}
