"""CLI: ./check <ID> --tier quick|thorough   |   ./check <ID> --replay <file>"""
import argparse
import os
import sys

sys.path.insert(0, os.path.dirname(os.path.dirname(os.path.abspath(__file__))))
from vp import core  # noqa


def main():
    ap = argparse.ArgumentParser()
    ap.add_argument('prop')
    ap.add_argument('--tier', default=os.environ.get('VERIF_TIER', 'quick'),
                    choices=['quick', 'thorough'])
    ap.add_argument('--replay')
    a = ap.parse_args()
    try:
        seed = int(os.environ.get('VERIF_SEED', '1'))
    except ValueError:
        seed = 1
    try:
        if a.replay:
            return core.run_replay(a.prop, a.replay)
        return core.run_check(a.prop, a.tier, seed)
    except SystemExit:
        raise
    except BaseException:
        import traceback
        traceback.print_exc()
        return 2


if __name__ == '__main__':
    sys.exit(main())
