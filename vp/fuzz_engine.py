"""Coverage-guided second engine (atheris / libFuzzer) for a property module.

Run as a subprocess by vp/core.py:

    /venv/bin/python -B vp/fuzz_engine.py <PROP> <tier> <outdir> <runs> <seed>

The fuzz target is Hypothesis's `fuzz_one_input` for the property's own strategy, so libFuzzer mutates the byte stream
that Hypothesis turns into a structured case; the semantic oracle (the property's check()) runs inside the target.
Violations do not crash the target: each new bucket is appended to <outdir>/findings.jsonl (one JSON object per line,
the case included, which is the replayable unit) and counters go to <outdir>/stats.json every 500 executions, because
libFuzzer never returns control (atexit handlers do not run).
"""
import json
import os
import sys

HERE = os.path.dirname(os.path.dirname(os.path.abspath(__file__)))
sys.path.insert(0, HERE)
sys.path.insert(1, os.path.join(HERE, '.deps'))


def main():
    prop, tier, outdir, runs, seed = sys.argv[1], sys.argv[2], sys.argv[3], int(sys.argv[4]), int(sys.argv[5])
    import atheris
    from vp import core
    repo = core.REPO_DIR
    sys.path.insert(0, repo)
    with atheris.instrument_imports(include=['svgpathtools']):
        import svgpathtools  # noqa  (instrumented)
    core.setup_library('scipy')
    mod = core.load_prop(prop)
    ctx = core.Ctx(prop, tier, 'scipy', matchers=core.load_matchers(prop))
    res = {'evaluations': 0, 'discarded': 0, 'known_hits': {}, 'failures': {}}
    seen = set()
    findings = open(os.path.join(outdir, 'findings.jsonl'), 'a')

    from hypothesis import given, settings, HealthCheck
    import hypothesis

    @settings(database=None, deadline=None, suppress_health_check=list(HealthCheck))
    @given(mod.strategy(tier, 'scipy'))
    def target(case):
        v = core.run_case(mod, case, ctx, res)
        if v is not None and v.bucket not in seen:
            seen.add(v.bucket)
            findings.write(json.dumps({'bucket': v.bucket, 'message': v.message, 'case': json.loads(core.canon(case))}) + '\n')
            findings.flush()
        if res['evaluations'] % 50 == 0:
            dump()

    def dump():
        with open(os.path.join(outdir, 'stats.json'), 'w') as f:
            json.dump({'evaluations': res['evaluations'], 'discarded': res['discarded'], 'known_hits': res['known_hits'],
                       'distinct_nontrivial': len(ctx.nontrivial_hashes), 'counters': ctx.counters,
                       'hashes': sorted(ctx.nontrivial_hashes)[:200000], 'samples': ctx.samples}, f)

    corpus = os.path.join(outdir, 'corpus')
    os.makedirs(corpus, exist_ok=True)
    argv = [sys.argv[0], '-runs=%d' % runs, '-seed=%d' % (seed or 1), '-max_len=4096', '-verbosity=0', '-print_final_stats=0', corpus]
    atheris.Setup(argv, target.hypothesis.fuzz_one_input)
    try:
        atheris.Fuzz()
    finally:
        dump()


if __name__ == '__main__':
    main()
