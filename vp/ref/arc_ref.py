"""SVG implementation notes F.6.5 / F.6.6: endpoint -> centre parameterisation.
Independent of svgpathtools (math only)."""
import math


def lam(start, rx, ry, phi_deg, end):
    """Lambda of F.6.6 step 3 (radii too small iff > 1)."""
    phi = math.radians(phi_deg)
    c, s = math.cos(phi), math.sin(phi)
    dx, dy = (start[0] - end[0]) / 2.0, (start[1] - end[1]) / 2.0
    x1p = c * dx + s * dy
    y1p = -s * dx + c * dy
    rx, ry = abs(rx), abs(ry)
    return (x1p * x1p) / (rx * rx) + (y1p * y1p) / (ry * ry)


def endpoint_to_center(start, rx, ry, phi_deg, fa, fs, end):
    """returns dict(center, rx, ry, phi_deg, theta1_deg, delta_deg, lam)"""
    phi = math.radians(phi_deg)
    c, s = math.cos(phi), math.sin(phi)
    dx, dy = (start[0] - end[0]) / 2.0, (start[1] - end[1]) / 2.0
    x1p = c * dx + s * dy
    y1p = -s * dx + c * dy
    rx, ry = abs(rx), abs(ry)
    L = (x1p * x1p) / (rx * rx) + (y1p * y1p) / (ry * ry)
    if L > 1:
        k = math.sqrt(L)
        rx, ry = k * rx, k * ry
    num = rx * rx * ry * ry - rx * rx * y1p * y1p - ry * ry * x1p * x1p
    den = rx * rx * y1p * y1p + ry * ry * x1p * x1p
    coef = math.sqrt(max(0.0, num / den))
    if bool(fa) == bool(fs):
        coef = -coef
    cxp = coef * rx * y1p / ry
    cyp = -coef * ry * x1p / rx
    cx = c * cxp - s * cyp + (start[0] + end[0]) / 2.0
    cy = s * cxp + c * cyp + (start[1] + end[1]) / 2.0

    def ang(ux, uy, vx, vy):
        d = math.hypot(ux, uy) * math.hypot(vx, vy)
        a = math.acos(max(-1.0, min(1.0, (ux * vx + uy * vy) / d)))
        if ux * vy - uy * vx < 0:
            a = -a
        return a

    ux, uy = (x1p - cxp) / rx, (y1p - cyp) / ry
    vx, vy = (-x1p - cxp) / rx, (-y1p - cyp) / ry
    theta1 = ang(1.0, 0.0, ux, uy)
    delta = ang(ux, uy, vx, vy)
    if not fs and delta > 0:
        delta -= 2 * math.pi
    elif fs and delta < 0:
        delta += 2 * math.pi
    return {'center': (cx, cy), 'rx': rx, 'ry': ry, 'phi_deg': phi_deg,
            'theta1_deg': math.degrees(theta1), 'delta_deg': math.degrees(delta), 'lam': L}


def point(cf, t):
    a = math.radians(cf['theta1_deg'] + t * cf['delta_deg'])
    phi = math.radians(cf['phi_deg'])
    x = cf['rx'] * math.cos(a)
    y = cf['ry'] * math.sin(a)
    return complex(cf['center'][0] + x * math.cos(phi) - y * math.sin(phi),
                   cf['center'][1] + x * math.sin(phi) + y * math.cos(phi))


def deriv(center_form, t, n):
    """n-th t-derivative of the arc given by a centre form dict with keys rx, ry, phi_deg, theta1_deg, delta_deg"""
    cf = center_form
    k = math.radians(cf['delta_deg']) ** n
    a = math.radians(cf['theta1_deg'] + t * cf['delta_deg']) + n * math.pi / 2
    phi = math.radians(cf['phi_deg'])
    x = cf['rx'] * math.cos(a)
    y = cf['ry'] * math.sin(a)
    return k * complex(x * math.cos(phi) - y * math.sin(phi), x * math.sin(phi) + y * math.cos(phi))
