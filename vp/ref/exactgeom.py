"""Exact (rational) geometry helpers, independent of svgpathtools.

Polynomials are lists of Fractions, lowest degree first."""
from fractions import Fraction as F
from math import comb


# ---------------------------------------------------------------------------
# polynomials
# ---------------------------------------------------------------------------

def ptrim(p):
    p = list(p)
    while len(p) > 1 and p[-1] == 0:
        p.pop()
    return p


def peval(p, x):
    acc = F(0)
    for c in reversed(p):
        acc = acc * x + c
    return acc


def padd(a, b):
    n = max(len(a), len(b))
    return ptrim([(a[i] if i < len(a) else 0) + (b[i] if i < len(b) else 0) for i in range(n)])


def pscale(a, k):
    return ptrim([c * k for c in a])


def pmul(a, b):
    out = [F(0)] * (len(a) + len(b) - 1)
    for i, x in enumerate(a):
        for j, y in enumerate(b):
            out[i + j] += x * y
    return ptrim(out)


def pderiv(a):
    return ptrim([i * a[i] for i in range(1, len(a))] or [F(0)])


def pinteg(a):
    return [F(0)] + [a[i] / (i + 1) for i in range(len(a))]


def pdivmod(a, b):
    a = ptrim(a)
    b = ptrim(b)
    if b == [0]:
        raise ZeroDivisionError
    q = [F(0)] * max(1, len(a) - len(b) + 1)
    r = list(a)
    while len(r) >= len(b) and r != [0]:
        k = r[-1] / b[-1]
        d = len(r) - len(b)
        q[d] = k
        for i in range(len(b)):
            r[i + d] -= k * b[i]
        r = ptrim(r[:-1]) if len(r) > 1 else [F(0)]
        if r == [0]:
            break
    return ptrim(q), ptrim(r)


def sturm_chain(p):
    p = ptrim(p)
    chain = [p, pderiv(p)]
    while chain[-1] != [0]:
        _, r = pdivmod(chain[-2], chain[-1])
        if r == [0]:
            break
        chain.append(pscale(r, -1))
    return chain


def _sign_changes(chain, x):
    signs = []
    for q in chain:
        v = peval(q, x)
        if v != 0:
            signs.append(v > 0)
    return sum(1 for a, b in zip(signs, signs[1:]) if a != b)


def count_roots_open(p, lo, hi):
    """number of distinct real roots of p in the open interval (lo, hi); p(lo), p(hi) must be non-zero
    and p must be square-free (raises ValueError otherwise)."""
    p = ptrim(p)
    if p == [0]:
        raise ValueError('zero polynomial')
    if peval(p, lo) == 0 or peval(p, hi) == 0:
        raise ValueError('root at an end point')
    chain = sturm_chain(p)
    if len(chain[-1]) > 1:
        raise ValueError('multiple root (not square-free)')
    return _sign_changes(chain, lo) - _sign_changes(chain, hi)


def isolate_roots(p, lo, hi, width=F(1, 10 ** 30)):
    """isolating intervals (a, b) of width <= `width` for the roots of square-free p in (lo, hi)."""
    p = ptrim(p)
    chain = sturm_chain(p)
    if len(chain[-1]) > 1:
        raise ValueError('multiple root')
    out = []
    stack = [(F(lo), F(hi))]
    while stack:
        a, b = stack.pop()
        if peval(p, a) == 0 or peval(p, b) == 0:
            # nudge off an exact rational root
            raise ValueError('rational root hit during isolation')
        n = _sign_changes(chain, a) - _sign_changes(chain, b)
        if n == 0:
            continue
        if n == 1 and b - a <= width:
            out.append((a, b))
            continue
        m = (a + b) / 2
        if peval(p, m) == 0:
            m = (a + m) / 2 + (b - a) / 7
        stack.append((a, m))
        stack.append((m, b))
    return sorted(out)


# ---------------------------------------------------------------------------
# Bezier in Fractions: power basis per coordinate
# ---------------------------------------------------------------------------

def bezier_power(ctrl):
    """ctrl: list of Fractions (one coordinate of the control points) -> power basis (low first)"""
    n = len(ctrl) - 1
    out = []
    d = list(ctrl)
    for j in range(n + 1):
        out.append(comb(n, j) * d[0])
        d = [d[i + 1] - d[i] for i in range(len(d) - 1)]
    return ptrim(out)


def bezier_area_term(xs, ys):
    """exact integral over [0,1] of x(t) y'(t) dt for a Bezier with rational control coordinates"""
    px, py = bezier_power(xs), bezier_power(ys)
    integrand = pmul(px, pderiv(py))
    anti = pinteg(integrand)
    return peval(anti, F(1))


def shoelace(pts):
    """signed area of the closed polygon through pts (list of (x, y) Fractions), counter-clockwise positive"""
    s = F(0)
    n = len(pts)
    for i in range(n):
        x0, y0 = pts[i]
        x1, y1 = pts[(i + 1) % n]
        s += x0 * y1 - x1 * y0
    return s / 2


def point_in_polygon_evenodd(pt, poly):
    """exact even-odd test; returns None if pt lies on the boundary"""
    x, y = pt
    inside = False
    n = len(poly)
    for i in range(n):
        x0, y0 = poly[i]
        x1, y1 = poly[(i + 1) % n]
        # on-boundary test
        cross = (x1 - x0) * (y - y0) - (y1 - y0) * (x - x0)
        if cross == 0 and min(x0, x1) <= x <= max(x0, x1) and min(y0, y1) <= y <= max(y0, y1):
            return None
        if (y0 > y) != (y1 > y):
            xi = x0 + (y - y0) * (x1 - x0) / (y1 - y0)
            if xi > x:
                inside = not inside
    return inside


def seg_seg_proper_crossing(a, b, c, d):
    """do closed segments ab and cd cross transversally at interior points of both? returns
    True / False, or None when they touch or overlap (not general position)."""
    def orient(p, q, r):
        return (q[0] - p[0]) * (r[1] - p[1]) - (q[1] - p[1]) * (r[0] - p[0])
    o1, o2, o3, o4 = orient(a, b, c), orient(a, b, d), orient(c, d, a), orient(c, d, b)
    if 0 in (o1, o2, o3, o4):
        # touching or collinear: decide whether they are disjoint at all
        def on(p, q, r):
            return orient(p, q, r) == 0 and min(p[0], q[0]) <= r[0] <= max(p[0], q[0]) and min(p[1], q[1]) <= r[1] <= max(p[1], q[1])
        if on(a, b, c) or on(a, b, d) or on(c, d, a) or on(c, d, b):
            return None
        return False
    return (o1 > 0) != (o2 > 0) and (o3 > 0) != (o4 > 0)
