"""Reference Bezier arithmetic, independent of svgpathtools.

Points are pairs (re, im); with Fraction components everything is exact."""
from fractions import Fraction as F
from math import comb, factorial
import math


def fr(x):
    return F(x)


def fpt(p):
    return (F(p[0]), F(p[1]))


def padd(a, b):
    return (a[0] + b[0], a[1] + b[1])


def psub(a, b):
    return (a[0] - b[0], a[1] - b[1])


def pmul(k, a):
    return (k * a[0], k * a[1])


def bern_point(pts, t):
    """sum_i C(n,i) (1-t)^(n-i) t^i P_i"""
    n = len(pts) - 1
    x = y = 0
    for i, p in enumerate(pts):
        b = comb(n, i) * (1 - t) ** (n - i) * t ** i
        x += b * p[0]
        y += b * p[1]
    return (x, y)


def diff_pts(pts):
    return [psub(pts[i + 1], pts[i]) for i in range(len(pts) - 1)]


def bern_deriv(pts, t, k):
    """k-th derivative of the Bernstein curve at t (zero beyond the degree)."""
    n = len(pts) - 1
    if k > n:
        return (0 * t, 0 * t)
    d = list(pts)
    for _ in range(k):
        d = diff_pts(d)
    c = factorial(n) // factorial(n - k)
    p = bern_point(d, t)
    return (c * p[0], c * p[1])


def power_coeffs(pts):
    """coefficients a_j of t^j, j = 0..n (lowest first): a_j = C(n,j) * Delta^j P_0"""
    n = len(pts) - 1
    out = []
    d = list(pts)
    for j in range(n + 1):
        out.append(pmul(comb(n, j), d[0]))
        d = diff_pts(d)
    return out


def de_casteljau_split(pts, t):
    left, right = [], []
    cur = list(pts)
    while cur:
        left.append(cur[0])
        right.append(cur[-1])
        cur = [padd(pmul(1 - t, cur[i]), pmul(t, cur[i + 1])) for i in range(len(cur) - 1)]
    right.reverse()
    return left, right


def to_c(p):
    return complex(float(p[0]), float(p[1]))


def mag_sum(pts):
    return sum(abs(float(p[0])) + abs(float(p[1])) for p in pts)


# -- float helpers ------------------------------------------------------------

def fpoint(pts, t):
    """float de Casteljau evaluation; pts are complex"""
    cur = list(pts)
    while len(cur) > 1:
        cur = [(1 - t) * cur[i] + t * cur[i + 1] for i in range(len(cur) - 1)]
    return cur[0]


def fsplit(pts, t):
    left, right = [], []
    cur = list(pts)
    while cur:
        left.append(cur[0])
        right.append(cur[-1])
        cur = [(1 - t) * cur[i] + t * cur[i + 1] for i in range(len(cur) - 1)]
    right.reverse()
    return left, right


def fcrop(pts, t0, t1):
    if t0 > 0:
        pts = fsplit(pts, t0)[1]
        t1 = (t1 - t0) / (1 - t0) if t0 < 1 else 1.0
    if t1 < 1:
        pts = fsplit(pts, t1)[0]
    return pts


def length_bracket(pts, t0=0.0, t1=1.0, pieces=256):
    """Rigorous (up to rounding) bracket of the arc length of the Bezier with complex
    control points `pts` over [t0, t1]: sum of chords <= L <= sum of control polygons."""
    sub = fcrop(list(pts), t0, t1)
    lo = hi = 0.0
    # uniform subdivision by repeated halving
    level = [sub]
    n = 1
    while n < pieces:
        nxt = []
        for c in level:
            a, b = fsplit(c, 0.5)
            nxt.append(a)
            nxt.append(b)
        level = nxt
        n *= 2
    for c in level:
        lo += abs(c[-1] - c[0])
        hi += sum(abs(c[i + 1] - c[i]) for i in range(len(c) - 1))
    return lo, hi
