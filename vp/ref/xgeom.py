"""Float helpers for the intersection checks (independent of svgpathtools):
reference evaluation of segment specs, construction of curves through a given
point, and a polyline-based crossing finder."""
import math

import numpy as np


def C(p):
    return complex(p[0], p[1])


def spec_eval(spec, ts):
    """points of the segment spec at numpy array ts (complex array). Arcs use the F.6.5 centre form."""
    ts = np.asarray(ts, dtype=float)
    k = spec[0]
    if k == 'A':
        from . import arc_ref
        cf = arc_ref.endpoint_to_center(spec[1], spec[2][0], spec[2][1], spec[3], spec[4], spec[5], spec[6])
        a = np.radians(cf['theta1_deg'] + ts * cf['delta_deg'])
        phi = math.radians(cf['phi_deg'])
        x = cf['rx'] * np.cos(a)
        y = cf['ry'] * np.sin(a)
        return (cf['center'][0] + x * math.cos(phi) - y * math.sin(phi)) + 1j * (cf['center'][1] + x * math.sin(phi) + y * math.cos(phi))
    pts = [C(p) for p in spec[1:]]
    cur = [np.full(ts.shape, z, dtype=complex) for z in pts]
    while len(cur) > 1:
        cur = [(1 - ts) * cur[i] + ts * cur[i + 1] for i in range(len(cur) - 1)]
    return cur[0]


def spec_tangent(spec, t, h=1e-6):
    t0, t1 = max(0.0, t - h), min(1.0, t + h)
    p = spec_eval(spec, np.array([t0, t1]))
    return (p[1] - p[0]) / (t1 - t0)


def through_point(kind, P, u, free, scale=1.0):
    """A Bezier spec of the given kind ('L','Q','C') passing through P (complex) at parameter u.
    `free` is a list of complex numbers used for the unconstrained control points."""
    if kind == 'L':
        d = free[0] if free[0] != 0 else complex(scale, 0)
        start = P - u * d
        end = P + (1 - u) * d
        pts = [start, end]
    elif kind == 'Q':
        p0, p2 = free[0], free[1]
        c = (P - (1 - u) ** 2 * p0 - u ** 2 * p2) / (2 * u * (1 - u))
        pts = [p0, c, p2]
    else:
        p0, p1, p3 = free[0], free[1], free[2]
        p2 = (P - (1 - u) ** 3 * p0 - 3 * u * (1 - u) ** 2 * p1 - u ** 3 * p3) / (3 * u * u * (1 - u))
        pts = [p0, p1, p2, p3]
    return [kind] + [[z.real, z.imag] for z in pts]


def shift_spec(spec, dz):
    out = [spec[0]]
    for i, v in enumerate(spec[1:], 1):
        if spec[0] == 'A' and i in (2, 3, 4, 5):
            out.append(v)
        else:
            out.append([v[0] + dz.real, v[1] + dz.imag])
    return out


def polyline_crossings(spec1, spec2, n=400):
    """approximate parameters (t1, t2) of all crossings of the two curves, from n-segment polylines.
    Returns list of (t1, t2, sin_angle)."""
    # different (odd) piece counts for the two curves: a crossing at a "simple" parameter (0.5, 0.25, ...) of both curves then
    # never falls on a vertex of both polylines, where the half-open piece tests can lose it to rounding
    n1 = n + 1 - (n % 2) + 0      # odd
    n2 = n1 + 4
    n1 = n1 if n1 % 3 else n1 + 2
    ts1 = np.linspace(0.0, 1.0, n1 + 1)
    ts2 = np.linspace(0.0, 1.0, n2 + 1)
    a = spec_eval(spec1, ts1)
    b = spec_eval(spec2, ts2)
    a0, a1 = a[:-1, None], a[1:, None]
    b0, b1 = b[None, :-1], b[None, 1:]
    da, db = a1 - a0, b1 - b0

    def cross(u, v):
        return u.real * v.imag - u.imag * v.real
    den = cross(da, db)
    w = b0 - a0
    with np.errstate(divide='ignore', invalid='ignore'):
        s = cross(w, db) / den
        t = cross(w, da) / den
    hit = (den != 0) & (s >= 0) & (s < 1) & (t >= 0) & (t < 1)
    out = []
    for i, j in zip(*np.nonzero(hit)):
        sa = abs(den[i, j]) / (abs(da[i, 0]) * abs(db[0, j]) + 1e-300)
        out.append(((i + s[i, j]) / n1, (j + t[i, j]) / n2, float(sa)))
    return out


def cluster(pairs, tol):
    """greedy clustering of (t1, t2, ...) tuples at parameter distance tol; returns list of representative tuples"""
    reps = []
    for p in sorted(pairs):
        for r in reps:
            if abs(r[0] - p[0]) <= tol and abs(r[1] - p[1]) <= tol:
                break
        else:
            reps.append(p)
    return reps


def refine_crossing(spec1, spec2, a, b, iters=8):
    """Newton refinement of an approximate crossing (a, b) of the two reference curves"""
    for _ in range(iters):
        p = spec_eval(spec1, np.array([a]))[0]
        q = spec_eval(spec2, np.array([b]))[0]
        d1 = spec_tangent(spec1, a)
        d2 = spec_tangent(spec2, b)
        det = d1.real * (-d2.imag) - (-d2.real) * d1.imag
        if det == 0:
            break
        r = q - p
        da = (r.real * (-d2.imag) - (-d2.real) * r.imag) / det
        db = (d1.real * r.imag - d1.imag * r.real) / det
        a = min(1.0, max(0.0, a + da))
        b = min(1.0, max(0.0, b + db))
    return a, b
