"""Reference model of SVG documents for C17/C18: documents are generated as trees (plain data), printed to text,
and flattened by this module per SVG 1.1 section 7.6 (transforms) and section 9 (basic shapes).  Independent of svgpathtools.

Tree node (dict):
  {'tag': 'g', 'id': str, 'tf': [transform, ...], 'children': [node, ...]}
  {'tag': 'path'|'line'|'polyline'|'polygon'|'rect'|'circle'|'ellipse', 'id': str, 'tf': [...], 'a': {attr: value}}
transform: ['matrix', a, b, c, d, e, f] | ['translate', tx[, ty]] | ['scale', sx[, sy]] | ['rotate', a[, cx, cy]] |
           ['skewX', a] | ['skewY', a]
Reference geometry is a list of segment specs (see vp/gen.py) in the element's own coordinate system.
"""
import math

SVG_NS = 'http://www.w3.org/2000/svg'


def fmt(v):
    if isinstance(v, float) and v == int(v) and abs(v) < 1e15:
        return str(int(v))
    return repr(float(v)) if isinstance(v, float) else str(v)


def tf_matrix(tf):
    k = tf[0]
    a = tf[1:]
    if k == 'matrix':
        return [[a[0], a[2], a[4]], [a[1], a[3], a[5]], [0.0, 0.0, 1.0]]
    if k == 'translate':
        return [[1.0, 0.0, a[0]], [0.0, 1.0, a[1] if len(a) > 1 else 0.0], [0.0, 0.0, 1.0]]
    if k == 'scale':
        return [[a[0], 0.0, 0.0], [0.0, a[1] if len(a) > 1 else a[0], 0.0], [0.0, 0.0, 1.0]]
    if k == 'rotate':
        t = math.radians(a[0])
        c, s = math.cos(t), math.sin(t)
        if len(a) == 3:
            cx, cy = a[1], a[2]
            return [[c, -s, cx - c * cx + s * cy], [s, c, cy - s * cx - c * cy], [0.0, 0.0, 1.0]]
        return [[c, -s, 0.0], [s, c, 0.0], [0.0, 0.0, 1.0]]
    if k == 'skewX':
        return [[1.0, math.tan(math.radians(a[0])), 0.0], [0.0, 1.0, 0.0], [0.0, 0.0, 1.0]]
    if k == 'skewY':
        return [[1.0, 0.0, 0.0], [math.tan(math.radians(a[0])), 1.0, 0.0], [0.0, 0.0, 1.0]]
    raise ValueError(tf)


def matmul(A, B):
    return [[sum(A[i][k] * B[k][j] for k in range(3)) for j in range(3)] for i in range(3)]


IDENT = [[1.0, 0.0, 0.0], [0.0, 1.0, 0.0], [0.0, 0.0, 1.0]]


def tf_list_matrix(tfs):
    M = IDENT
    for tf in tfs:
        M = matmul(M, tf_matrix(tf))
    return M


def fmt_exp(v):
    """the same decimal value spelled in exponent notation (e.g. 0.5 -> '5e-1', 20 -> '2e1')"""
    from decimal import Decimal
    d = Decimal(repr(float(v)))
    sign, digits, exp = d.as_tuple()
    digs = ''.join(str(x) for x in digits).lstrip('0') or '0'
    # strip trailing zeros into the exponent
    while len(digs) > 1 and digs.endswith('0'):
        digs = digs[:-1]
        exp += 1
    return '%s%se%d' % ('-' if sign else '', digs, exp)


LIST_SEPS = [' ', ', ', ',', '\n', ' , ', '  ']


def tf_text(tfs, sep_choice=0):
    """sep_choice % 3: argument separator; (sep_choice % 6) >= 3: every other transform spelled with exponents;
    sep_choice // 6: separator between the transforms of the list (comma-wsp, SVG 1.1 section 7.6) and, for odd values,
    white space before the opening parenthesis"""
    parts = []
    for k, tf in enumerate(tfs):
        sep = [',', ' ', ', '][sep_choice % 3] if len(tf) > 2 else ''
        f = fmt_exp if ((sep_choice % 6) >= 3 and (k + sep_choice) % 2 == 0) else fmt
        gap = ' ' if (sep_choice // 6) % 2 == 1 and k % 2 == 1 else ''
        parts.append('%s%s(%s)' % (tf[0], gap, sep.join(f(v) for v in tf[1:])))
    return LIST_SEPS[(sep_choice // 6) % len(LIST_SEPS)].join(parts)


def apply(M, z):
    return complex(M[0][0] * z.real + M[0][1] * z.imag + M[0][2], M[1][0] * z.real + M[1][1] * z.imag + M[1][2])


# ---------------------------------------------------------------------------
# geometry of the basic shapes (SVG 1.1 section 9), as segment specs
# ---------------------------------------------------------------------------

def shape_specs(node):
    """returns (specs, closed) -- specs in the element's user space"""
    a = node['a']
    t = node['tag']
    if t == 'path':
        # (SVG 1.1 F.6.2: an arc whose end points are identical is omitted entirely)
        return [list(s) for s in node['segs'] if not (s[0] == 'A' and s[1] == s[6])], node.get('closed', False)
    if t == 'line':
        return [['L', [a['x1'], a['y1']], [a['x2'], a['y2']]]], False
    if t in ('polyline', 'polygon'):
        pts = [list(p) for p in node['pts']]
        specs = [['L', pts[i], pts[i + 1]] for i in range(len(pts) - 1)]
        if t == 'polygon':
            specs.append(['L', pts[-1], pts[0]])
        return specs, t == 'polygon'
    if t == 'rect':
        x, y, w, h = a['x'], a['y'], a['width'], a['height']
        rx, ry = a.get('rx'), a.get('ry')
        if rx is None and ry is None:
            p = [[x, y], [x + w, y], [x + w, y + h], [x, y + h]]
            return [['L', p[i], p[(i + 1) % 4]] for i in range(4)], True
        if rx is None:
            rx = ry
        if ry is None:
            ry = rx
        rx = min(rx, w / 2.0)
        ry = min(ry, h / 2.0)
        specs = [['L', [x + rx, y], [x + w - rx, y]],
                 ['A', [x + w - rx, y], [rx, ry], 0.0, 0, 1, [x + w, y + ry]],
                 ['L', [x + w, y + ry], [x + w, y + h - ry]],
                 ['A', [x + w, y + h - ry], [rx, ry], 0.0, 0, 1, [x + w - rx, y + h]],
                 ['L', [x + w - rx, y + h], [x + rx, y + h]],
                 ['A', [x + rx, y + h], [rx, ry], 0.0, 0, 1, [x, y + h - ry]],
                 ['L', [x, y + h - ry], [x, y + ry]],
                 ['A', [x, y + ry], [rx, ry], 0.0, 0, 1, [x + rx, y]]]
        return specs, True
    if t in ('circle', 'ellipse'):
        return None, True   # compared as a point set (see ellipse_params)
    raise ValueError(t)


def ellipse_params(node):
    a = node['a']
    if node['tag'] == 'circle':
        return a.get('cx', 0.0), a.get('cy', 0.0), a['r'], a['r']
    return a.get('cx', 0.0), a.get('cy', 0.0), a['rx'], a['ry']


# ---------------------------------------------------------------------------
# printing
# ---------------------------------------------------------------------------

def path_d(segs, closed):
    out = []
    cur = None
    for s in segs:
        st = s[1]
        if cur != st:
            out.append('M %s,%s' % (fmt(st[0]), fmt(st[1])))
        if s[0] == 'L':
            out.append('L %s,%s' % (fmt(s[2][0]), fmt(s[2][1])))
        elif s[0] == 'Q':
            out.append('Q %s,%s %s,%s' % (fmt(s[2][0]), fmt(s[2][1]), fmt(s[3][0]), fmt(s[3][1])))
        elif s[0] == 'C':
            out.append('C %s,%s %s,%s %s,%s' % tuple(fmt(v) for p in s[2:] for v in p))
        else:
            out.append('A %s,%s %s %d,%d %s,%s' % (fmt(s[2][0]), fmt(s[2][1]), fmt(s[3]), s[4], s[5], fmt(s[6][0]), fmt(s[6][1])))
        cur = s[-1]
    if closed:
        out.append('Z')
    return ' '.join(out)


def attr_text(node, sep_choice=0):
    t = node['tag']
    a = dict(node.get('a', {}))
    items = []
    if node.get('id') is not None:
        items.append(('id', node['id']))
    if node.get('tf'):
        items.append(('transform', tf_text(node['tf'], sep_choice)))
    if t == 'path':
        items.append(('d', path_d(node['segs'], node.get('closed', False))))
    elif t in ('polyline', 'polygon'):
        sep = [' ', ','][sep_choice % 2]
        items.append(('points', ' '.join('%s%s%s' % (fmt(p[0]), sep, fmt(p[1])) for p in node['pts'])))
    for k, v in a.items():
        if v is not None:
            items.append((k, fmt(v) if not isinstance(v, str) else v))
    for k, v in node.get('extra', {}).items():
        items.append((k, v))
    return ''.join(' %s="%s"' % (k, v) for k, v in items)


def to_text(root_children, sep_choice=0, svg_attrs=None):
    lines = ['<svg xmlns="%s"%s>' % (SVG_NS, ''.join(' %s="%s"' % kv for kv in (svg_attrs or {}).items()))]

    def emit(node, depth):
        ind = '  ' * depth
        if node['tag'] == 'g':
            lines.append('%s<g%s>' % (ind, attr_text(node, sep_choice)))
            for c in node['children']:
                emit(c, depth + 1)
            lines.append('%s</g>' % ind)
        else:
            lines.append('%s<%s%s/>' % (ind, node['tag'], attr_text(node, sep_choice)))
    for c in root_children:
        emit(c, 1)
    lines.append('</svg>')
    return '\n'.join(lines)


def leaves(root_children):
    """document-order list of (leaf node, chain of transform lists from outermost ancestor to the leaf itself, ancestor ids)"""
    out = []

    def walk(node, chain, anc):
        if node['tag'] == 'g':
            for c in node['children']:
                walk(c, chain + [node.get('tf', [])], anc + [node.get('id')])
        else:
            out.append((node, chain + [node.get('tf', [])], anc))
    for c in root_children:
        walk(c, [], [])
    return out
