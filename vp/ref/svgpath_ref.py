"""Reference SVG path-data scanner and interpreter, written from the SVG 1.1 (8.3) /
SVG 2 (9.3) grammar and semantics.  Does not import svgpathtools.

tokenize(text)  -> [(letter, [group, ...]), ...]   (groups of floats; arc flags as ints)
interpret(cmds) -> [segment tuples]                 ('L', p0, p1) ('Q', p0, c, p1)
                                                    ('C', p0, c1, c2, p1)
                                                    ('A', p0, (rx, ry), rot, large, sweep, p1)
                                                    ('AL', p0, p1)  zero-radius arc -> line
Points are Python complex numbers; arithmetic is component-wise IEEE double
(cur + d, cur + cur - c) exactly as the specification's formulas read.
"""
import re

ARITY = {'M': 2, 'L': 2, 'H': 1, 'V': 1, 'C': 6, 'S': 4, 'Q': 4, 'T': 2, 'A': 7, 'Z': 0}
NUM_RE = re.compile(r'[-+]?(?:[0-9]+\.[0-9]+|\.[0-9]+|[0-9]+)(?:[eE][-+]?[0-9]+)?')
WSP = ' \t\r\n\x0c'


class PathSyntaxError(ValueError):
    pass


def tokenize(text):
    i = 0
    n = len(text)
    cmds = []

    def skip_wsp(i):
        while i < n and text[i] in WSP:
            i += 1
        return i

    def skip_comma_wsp(i):
        i = skip_wsp(i)
        if i < n and text[i] == ',':
            i = skip_wsp(i + 1)
        return i

    def number(i):
        m = NUM_RE.match(text, i)
        if not m:
            raise PathSyntaxError('number expected at %d: %r' % (i, text[i:i + 20]))
        return float(m.group(0)), m.end()

    def flag(i):
        if i < n and text[i] in '01':
            return int(text[i]), i + 1
        raise PathSyntaxError('flag expected at %d: %r' % (i, text[i:i + 20]))

    i = skip_wsp(i)
    while i < n:
        ch = text[i]
        if ch.upper() not in ARITY:
            raise PathSyntaxError('command expected at %d: %r' % (i, text[i:i + 20]))
        if not cmds and ch.upper() != 'M':
            raise PathSyntaxError('path data must start with a moveto')
        i += 1
        ar = ARITY[ch.upper()]
        groups = []
        if ar == 0:
            cmds.append((ch, groups))
            i = skip_wsp(i)
            continue
        i = skip_wsp(i)
        while True:
            g = []
            for k in range(ar):
                if k:
                    i = skip_comma_wsp(i)
                if ch.upper() == 'A' and k in (3, 4):
                    v, i = flag(i)
                else:
                    v, i = number(i)
                g.append(v)
            groups.append(g)
            j = skip_comma_wsp(i)
            if j < n and (text[j] in '+-.' or text[j].isdigit()):
                i = j
                continue
            i = skip_wsp(i)
            break
        cmds.append((ch, groups))
    return cmds


def _add(a, b):
    return complex(a.real + b.real, a.imag + b.imag)


def _reflect(cur, c):
    # 2*cur - c, evaluated as (cur + cur) - c
    return complex((cur.real + cur.real) - c.real, (cur.imag + cur.imag) - c.imag)


def interpret(cmds, start=0j):
    """Returns (segments, info) where info counts the noteworthy situations."""
    segs = []
    info = {}

    def note(k):
        info[k] = info.get(k, 0) + 1

    cur = start
    sub_start = None
    prev = None          # previous command letter (upper), per drawn group
    prev_ctrl = None     # last control point of the previous curve group
    first = True
    for letter, groups in cmds:
        up = letter.upper()
        rel = letter.islower()
        if up == 'Z':
            if sub_start is None:
                raise PathSyntaxError('Z before M')
            if not (cur == sub_start):
                segs.append(('L', cur, sub_start))
                note('z_adds_line')
            else:
                note('z_no_line')
            cur = sub_start
            prev = 'Z'
            prev_ctrl = None
            continue
        if prev == 'Z' and up != 'M':
            note('draw_after_z')
        for gi, g in enumerate(groups):
            eff = up
            if up == 'M' and gi > 0:
                eff = 'L'
                note('implicit_lineto_after_moveto')
            elif gi > 0:
                note('implicit_repeat')
            if eff == 'M':
                p = complex(g[0], g[1])
                if rel and not first:
                    p = _add(cur, p)
                elif rel and first:
                    p = _add(start, p)
                if not first:
                    note('second_moveto')
                cur = p
                sub_start = p
                first = False
                prev = 'M'
                prev_ctrl = None
                continue
            if eff == 'L':
                p = complex(g[0], g[1])
                if rel:
                    p = _add(cur, p)
                segs.append(('L', cur, p))
                cur = p
                prev_ctrl = None
            elif eff == 'H':
                x = g[0] + cur.real if rel else g[0]
                p = complex(x, cur.imag)
                if rel:
                    note('h_v_relative')
                segs.append(('L', cur, p))
                cur = p
                prev_ctrl = None
            elif eff == 'V':
                y = g[0] + cur.imag if rel else g[0]
                p = complex(cur.real, y)
                if rel:
                    note('h_v_relative')
                segs.append(('L', cur, p))
                cur = p
                prev_ctrl = None
            elif eff == 'C':
                c1, c2, p = complex(g[0], g[1]), complex(g[2], g[3]), complex(g[4], g[5])
                if rel:
                    c1, c2, p = _add(cur, c1), _add(cur, c2), _add(cur, p)
                segs.append(('C', cur, c1, c2, p))
                cur = p
                prev_ctrl = c2
            elif eff == 'S':
                c2, p = complex(g[0], g[1]), complex(g[2], g[3])
                if prev in ('C', 'S'):
                    c1 = _reflect(cur, prev_ctrl)
                    note('s_reflects')
                else:
                    c1 = cur
                    note('s_fallback_after_%s' % prev)
                if rel:
                    c2, p = _add(cur, c2), _add(cur, p)
                segs.append(('C', cur, c1, c2, p))
                cur = p
                prev_ctrl = c2
            elif eff == 'Q':
                c, p = complex(g[0], g[1]), complex(g[2], g[3])
                if rel:
                    c, p = _add(cur, c), _add(cur, p)
                segs.append(('Q', cur, c, p))
                cur = p
                prev_ctrl = c
            elif eff == 'T':
                p = complex(g[0], g[1])
                if prev in ('Q', 'T'):
                    c = _reflect(cur, prev_ctrl)
                    note('t_reflects')
                else:
                    c = cur
                    note('t_fallback_after_%s' % prev)
                if rel:
                    p = _add(cur, p)
                segs.append(('Q', cur, c, p))
                cur = p
                prev_ctrl = c
            elif eff == 'A':
                rx, ry, rot, large, sweep = g[0], g[1], g[2], int(g[3]), int(g[4])
                p = complex(g[5], g[6])
                if rel:
                    p = _add(cur, p)
                if rx == 0 or ry == 0:
                    segs.append(('AL', cur, p))
                    note('zero_radius_arc')
                else:
                    if p == cur:
                        # F.6.2: identical end points: the arc is omitted entirely
                        note('arc_with_coincident_endpoints')
                    else:
                        segs.append(('A', cur, (rx, ry), rot, large, sweep, p))
                cur = p
                prev_ctrl = None
            prev = eff
    return segs, info
