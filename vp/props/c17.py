"""C17 -- SVG flattening applies shape conversion and nested transforms per the SVG spec."""
import io
import math

import numpy as np
from hypothesis import strategies as st

from vp import gen
from vp.ref import svgdoc_ref as D
from vp.ref import xgeom as X

ID = 'C17'
RULE = ("generated SVG documents: group trees of depth <= 4, every group/leaf with 0-3 transforms from matrix / translate (1-2 "
        "args) / scale (1-2) / rotate (1 or 3) / skewX / skewY written with ',' or ' ' separators; leaves of all seven kinds "
        "(path with L/Q/C/A segments, line, polyline, polygon, plain and rounded rect with rx only / ry only / both, circle, "
        "ellipse), unique ids, random order and nesting. Oracle: reference flattener (vp/ref/svgdoc_ref.py) working on the "
        "generated structure (never on the text); returned paths matched to leaves by id and compared segment-wise at 5 "
        "parameters through the reference matrix; circles/ellipses as point sets on the mapped ellipse covering 16 sectors. "
        "Readers: Document.paths, Document.paths_from_group, svg2paths (no transforms by design), SaxDocument. Non-trivial = "
        "some leaf has >= 2 non-commuting non-identity transforms on its chain; distinct by document hash.")
ASSUMPTIONS = ["transform arguments are separated by single commas/spaces (parse_transform splits on those); the transforms of a list by white space and/or one comma",
               "tolerance 1e-8 * size * cond(M) (arcs 1e-6); matrices with condition number above 1e3 are not generated",
               "circles/ellipses are compared as point sets (the library starts them at 9 o'clock)"]
# coverage-guided second engine (atheris), thorough tier only: (shards, libFuzzer runs per shard)
FUZZ = {'thorough': (16, 8000)}
RULE += ' Also: Transform lists separated by white space and/or a comma, blank before the parenthesis.'   # added after the seeded-change rounds (DESIGN.md section 10)
CONFIGS = ['scipy']
BUDGET = {'quick': 4000, 'thorough': 60000}
REQUIRED = ['tf_list_sep:comma', 'tf_list_sep:wsp', 'leaf:path', 'leaf:line', 'leaf:polyline', 'leaf:polygon', 'leaf:rect', 'leaf:rect_rounded', 'leaf:circle', 'leaf:ellipse',
            'tf:matrix', 'tf:translate', 'tf:scale', 'tf:rotate', 'tf:rotate3', 'tf:skewX', 'tf:skewY', 'tf_args_in_exponent_notation', 'depth>=2', 'reader:Document',
            'reader:svg2paths', 'reader:SaxDocument', 'reader:paths_from_group', 'noncommuting_chain']
CASE_TIMEOUT = 60

num = st.one_of(st.integers(-20, 20).map(float), st.integers(-200, 200).map(lambda k: k / 8.0))
pos = st.one_of(st.integers(1, 20).map(float), st.integers(1, 160).map(lambda k: k / 8.0))


@st.composite
def transform_s(draw):
    k = draw(st.sampled_from(['matrix', 'translate', 'translate1', 'scale', 'scale1', 'rotate', 'rotate3', 'skewX', 'skewY']))
    if k == 'matrix':
        a, d = draw(st.sampled_from([1.0, 2.0, 0.5, -1.0])), draw(st.sampled_from([1.0, 2.0, 0.5, -1.0]))
        b, c = draw(st.sampled_from([0.0, 0.5, -0.5, 1.0])), draw(st.sampled_from([0.0, 0.25, -1.0]))
        if abs(a * d - b * c) < 0.2:
            b = 0.0
        return ['matrix', a, b, c, d, draw(num), draw(num)]
    if k == 'translate':
        return ['translate', draw(num), draw(num)]
    if k == 'translate1':
        return ['translate', draw(num)]
    if k == 'scale':
        return ['scale', draw(st.sampled_from([2.0, 0.5, -1.0, 3.0, 1.5])), draw(st.sampled_from([2.0, 0.5, -1.0, 1.0, 0.25]))]
    if k == 'scale1':
        return ['scale', draw(st.sampled_from([2.0, 0.5, -1.0, 3.0]))]
    if k == 'rotate':
        return ['rotate', draw(st.sampled_from([90.0, 45.0, -30.0, 180.0, 10.0, 270.0]))]
    if k == 'rotate3':
        return ['rotate', draw(st.sampled_from([90.0, 45.0, -30.0, 120.0])), draw(num), draw(num)]
    return [k, draw(st.sampled_from([30.0, -20.0, 45.0, 10.0, 60.0]))]


tfs_s = st.lists(transform_s(), min_size=0, max_size=3)
pt2 = st.tuples(num, num).map(list)


@st.composite
def leaf_s(draw, uid):
    t = draw(st.sampled_from(['path', 'path', 'line', 'polyline', 'polygon', 'rect', 'rect_rounded', 'rect_rounded', 'circle', 'ellipse']))
    node = {'id': 'e%d' % uid, 'tf': draw(tfs_s), 'a': {}}
    if t == 'path':
        segs = draw(gen.chain_specs(min_size=1, max_size=4, scale=1.0, closed=False, break_prob=draw(st.sampled_from([0, 30]))))
        # keep the numbers short and exactly printable
        segs = [_round_spec(s) for s in segs]
        for s in segs:
            if s[1] == s[-1]:
                s[-1] = [s[-1][0] + 1.0, s[-1][1] + 0.5]
        segs = _rechain(segs)
        closed = draw(st.booleans()) and segs[0][1] != segs[-1][-1]
        node.update({'tag': 'path', 'segs': segs, 'closed': closed})
    elif t == 'line':
        p, q = draw(pt2), draw(pt2)
        if p == q:
            q = [q[0] + 1.0, q[1]]
        node.update({'tag': 'line', 'a': {'x1': p[0], 'y1': p[1], 'x2': q[0], 'y2': q[1]}})
    elif t in ('polyline', 'polygon'):
        pts = draw(st.lists(pt2, min_size=3, max_size=6, unique_by=lambda p: tuple(p)))
        if draw(st.integers(0, 4)) == 0:
            pts = pts + [list(pts[0])]      # explicitly closed point list
        node.update({'tag': t, 'pts': pts})
    elif t == 'rect':
        node.update({'tag': 'rect', 'a': {'x': draw(num), 'y': draw(num), 'width': draw(pos), 'height': draw(pos)}})
    elif t == 'rect_rounded':
        w, h = draw(pos), draw(pos)
        mode = draw(st.sampled_from(['both', 'rx', 'ry', 'both', 'too_big', 'rx_too_big', 'ry_too_big']))
        fx, fy = draw(st.sampled_from([0.125, 0.25, 0.375])), draw(st.sampled_from([0.125, 0.25, 0.5]))
        a = {'x': draw(num), 'y': draw(num), 'width': w, 'height': h}
        if mode in ('both', 'rx'):
            a['rx'] = w * fx
        if mode in ('both', 'ry'):
            a['ry'] = h * fy
        if mode == 'rx':
            a['rx'] = min(w, h) * fx
        if mode == 'ry':
            a['ry'] = min(w, h) * fy
        if mode == 'rx_too_big':      # only rx given, larger than half the width (ry follows rx before clamping)
            a['rx'] = w * draw(st.sampled_from([0.75, 1.0, 3.0]))
        if mode == 'ry_too_big':
            a['ry'] = h * draw(st.sampled_from([0.75, 1.0, 3.0]))
        if mode == 'too_big':
            a['rx'] = w * draw(st.sampled_from([0.75, 1.0, 2.0]))
            a['ry'] = h * fy
        node.update({'tag': 'rect', 'a': a, 'rounded': mode})
    elif t == 'circle':
        node.update({'tag': 'circle', 'a': {'cx': draw(num), 'cy': draw(num), 'r': draw(pos)}})
    else:
        node.update({'tag': 'ellipse', 'a': {'cx': draw(num), 'cy': draw(num), 'rx': draw(pos), 'ry': draw(pos)}})
    return node


def _round_spec(s):
    out = [s[0]]
    for i, v in enumerate(s[1:], 1):
        if s[0] == 'A' and i in (3, 4, 5):
            out.append(v if i != 3 else float(round(v)))
        elif s[0] == 'A' and i == 2:
            out.append([max(0.125, round(abs(v[0]) * 8) / 8.0), max(0.125, round(abs(v[1]) * 8) / 8.0)])
        else:
            out.append([round(v[0] * 8) / 8.0, round(v[1] * 8) / 8.0])
    return out


def _rechain(segs):
    """after rounding, re-join consecutive segments that were joined before"""
    for a, b in zip(segs, segs[1:]):
        if abs(a[-1][0] - b[1][0]) < 0.2 and abs(a[-1][1] - b[1][1]) < 0.2:
            b[1] = list(a[-1])
    return segs


@st.composite
def tree_s(draw):
    counter = [0]

    def mk(depth):
        n = draw(st.integers(1, 3))
        out = []
        for _ in range(n):
            counter[0] += 1
            if depth < 4 and draw(st.integers(0, 2)) == 0:
                out.append({'tag': 'g', 'id': 'g%d' % counter[0], 'tf': draw(tfs_s), 'children': mk(depth + 1)})
            else:
                out.append(draw(leaf_s(counter[0])))
        return out
    return {'tree': mk(0), 'sep': draw(st.integers(0, 35)), 'group_pick': draw(st.integers(0, 20))}


def strategy(tier, config):
    return tree_s()


# ---------------------------------------------------------------------------

def cond(M):
    A = np.array([[M[0][0], M[0][1]], [M[1][0], M[1][1]]])
    sv = np.linalg.svd(A, compute_uv=False)
    return float(sv[0] / sv[-1]) if sv[-1] > 0 else float('inf')


def noncommuting(tfs):
    ms = [D.tf_matrix(t) for t in tfs]
    ms = [m for m in ms if m != D.IDENT]
    for i in range(len(ms)):
        for j in range(i + 1, len(ms)):
            a, b = D.matmul(ms[i], ms[j]), D.matmul(ms[j], ms[i])
            if max(abs(a[r][c] - b[r][c]) for r in range(3) for c in range(3)) > 1e-9:
                return True
    return False


def drop_zero_lines(segs):
    from svgpathtools import Line
    return [s for s in segs if not (isinstance(s, Line) and s.start == s.end)]


def compare_leaf(ctx, reader, node, M, path, use_tf):
    """compare a returned path with the reference geometry of `node` mapped by M"""
    tag = node['tag']
    label = 'rect_rounded' if (tag == 'rect' and ('rx' in node['a'] or 'ry' in node['a'])) else tag
    c = cond(M) if use_tf else 1.0
    if tag in ('circle', 'ellipse'):
        cx, cy, rx, ry = D.ellipse_params(node)
        size = max(rx, ry) * max(1.0, max(abs(M[0][0]), abs(M[0][1]), abs(M[1][0]), abs(M[1][1]))) if use_tf else max(rx, ry)
        ctx.check(len(path) >= 2 and path.iscontinuous() and abs(path.start - path.end) <= 1e-6 * size, '%s/%s/not_closed' % (reader, label),
                  '%s: the path of a %s is not a closed continuous outline: %r' % (reader, tag, path))
        # inverse-map sampled points onto the unit circle of the original ellipse
        Mi = np.linalg.inv(np.array(M)) if use_tf else np.identity(3)
        sectors = set()
        for seg in path:
            for t in np.linspace(0, 1, 41):
                z = complex(seg.point(t))
                w = Mi.dot(np.array([z.real, z.imag, 1.0]))
                u = complex((w[0] - cx) / rx, (w[1] - cy) / ry)
                ctx.check(abs(abs(u) - 1) <= 1e-6 * c, '%s/%s/off_ellipse' % (reader, label),
                          '%s: a point of the returned %s path is off the mapped ellipse (|u|=%r)' % (reader, tag, abs(u)))
                sectors.add(int((math.atan2(u.imag, u.real) + math.pi) / (2 * math.pi) * 16) % 16)
        ctx.check(len(sectors) == 16, '%s/%s/not_full_turn' % (reader, label), '%s: the %s path covers only %d of 16 sectors' % (reader, tag, len(sectors)))
        return
    specs, closed = D.shape_specs(node)
    got = drop_zero_lines(list(path))
    specs = [s for s in specs if not (s[0] == 'L' and s[1] == s[2])]
    if tag == 'path' and node.get('closed') and specs and specs[-1][-1] != specs[0][1]:
        # Z adds the closing line
        last_sub_start = specs[0][1]
        for a, b in zip(specs, specs[1:]):
            if a[-1] != b[1]:
                last_sub_start = b[1]
        if specs[-1][-1] != last_sub_start:
            specs = specs + [['L', specs[-1][-1], last_sub_start]]
    kinds_ref = ''.join(s[0] for s in specs)
    kinds_got = ''.join({'Line': 'L', 'QuadraticBezier': 'Q', 'CubicBezier': 'C', 'Arc': 'A'}[type(s).__name__] for s in got)
    rounded = node.get('rounded')
    ctx.check(kinds_ref == kinds_got, '%s/%s/segment_kinds%s' % (reader, label, '/' + rounded if rounded else ''),
              '%s: %s id=%s came back as segments %s, the specification gives %s (%r)' % (reader, tag, node['id'], kinds_got, kinds_ref, node['a']))
    size = max(gen.spec_size(specs), 1e-9)
    scale = max(1.0, max(abs(M[0][0]), abs(M[0][1]), abs(M[1][0]), abs(M[1][1]))) if use_tf else 1.0
    for s, g in zip(specs, got):
        tol = (1e-6 if s[0] == 'A' else 1e-8) * size * scale * c + 1e-9
        if s[0] == 'A':
            from vp.ref import arc_ref
            L = arc_ref.lam(s[1], s[2][0], s[2][1], s[3], s[6])
            if L > 1 - 1e-6:
                tol = max(tol, 2e-4 * size * scale * c)
        ref = X.spec_eval(s, np.linspace(0, 1, 5))
        for t, z in zip(np.linspace(0, 1, 5), ref):
            want = D.apply(M, z) if use_tf else z
            have = complex(g.point(t))
            ctx.check(abs(have - want) <= tol, '%s/%s/geometry%s' % (reader, label, '/' + s[0]),
                      '%s: %s id=%s segment %s at t=%.2f is %r, reference %r (transform chain %r)' % (reader, tag, node['id'], s[0], t, have, want, node.get('_chain')))


def check(case, ctx):
    from svgpathtools import Document, svg2paths, SaxDocument
    from svgpathtools.svg_to_paths import svgstr2paths
    import tempfile, os
    tree = case['tree']
    text = D.to_text(tree, case['sep'])
    if case['sep'] % 6 >= 3 and 'e' in ''.join(D.tf_text(n.get('tf', []), case['sep']) for n in _all_nodes(tree)).replace('translate', '').replace('scale', '').replace('rotate', '').replace('skew', ''):
        ctx.count('tf_args_in_exponent_notation')
    if any(len(n.get('tf', [])) >= 2 for n in _all_nodes(tree)):
        ctx.count('tf_list_sep:%s' % ('comma' if ',' in D.LIST_SEPS[(case['sep'] // 6) % len(D.LIST_SEPS)] else 'wsp'))
    lv = D.leaves(tree)
    if not lv:
        ctx.discard('no leaves')
    info = {}
    interesting = False
    for node, chain, anc in lv:
        flat = [t for tl in chain for t in tl]
        M = D.tf_list_matrix(flat)
        if not (cond(M) <= 1e3):
            ctx.discard('ill-conditioned transform chain')
        node['_chain'] = D.tf_text(flat)
        info[node['id']] = (node, M, anc)
        label = 'rect_rounded' if (node['tag'] == 'rect' and ('rx' in node['a'] or 'ry' in node['a'])) else node['tag']
        ctx.count('leaf:' + label)
        if node.get('rounded') in ('too_big', 'rx_too_big', 'ry_too_big'):
            ctx.count('leaf:rect_rx_above_half_width')
        for t in flat:
            ctx.count('tf:' + ('rotate3' if t[0] == 'rotate' and len(t) == 4 else t[0]))
        if len(anc) >= 2:
            ctx.count('depth>=2')
        if noncommuting(flat):
            interesting = True
    if interesting:
        ctx.count('noncommuting_chain')
        ctx.nontrivial(key=text, sample={'svg': text[:1500]})
    # -- Document.paths ---------------------------------------------------------------------------------
    ctx.count('reader:Document')
    doc = ctx.lib('Document', Document.from_svg_string, text)
    paths = ctx.lib('Document.paths', doc.paths)
    seen = {}
    for p in paths:
        eid = p.element.get('id')
        ctx.check(eid in info and eid not in seen, 'Document/unknown_or_duplicate_element', 'Document.paths returned element id %r' % eid)
        seen[eid] = p
    ctx.check(set(seen) == set(info), 'Document/missing_elements', 'Document.paths returned %d of %d leaves; missing %r' % (len(seen), len(info), sorted(set(info) - set(seen))))
    for eid, p in seen.items():
        node, M, anc = info[eid]
        compare_leaf(ctx, 'Document', node, M, p, True)
    # -- Document.paths_from_group ------------------------------------------------------------------------
    groups = []

    def collect(nodes):
        for n in nodes:
            if n['tag'] == 'g':
                groups.append(n)
                collect(n['children'])
    collect(tree)
    if groups:
        ctx.count('reader:paths_from_group')
        g = groups[case['group_pick'] % len(groups)]
        elem = [e for e in doc.tree.iter() if e.get('id') == g['id']][0]
        sub = ctx.lib('Document.paths_from_group', doc.paths_from_group, elem)
        want_ids = {n['id'] for n, chain, anc in lv if g['id'] in anc}
        got_ids = [p.element.get('id') for p in sub]
        ctx.check(set(got_ids) == want_ids and len(got_ids) == len(want_ids), 'paths_from_group/elements',
                  'paths_from_group(%s) returned %r, expected the leaves %r' % (g['id'], sorted(got_ids), sorted(want_ids)))
        for p in sub:
            node, M, anc = info[p.element.get('id')]
            compare_leaf(ctx, 'paths_from_group', node, M, p, True)
    # -- svg2paths (ignores transforms by design) -----------------------------------------------------------
    ctx.count('reader:svg2paths')
    ps, attrs = ctx.lib('svg2paths', svgstr2paths, text)
    ctx.check(len(ps) == len(info), 'svg2paths/count', 'svg2paths returned %d paths for %d leaves' % (len(ps), len(info)))
    got = {}
    for p, a in zip(ps, attrs):
        ctx.check(a.get('id') in info and a.get('id') not in got, 'svg2paths/unknown_or_duplicate_element', 'svg2paths returned attributes %r' % (a,))
        got[a['id']] = p
    for eid, p in got.items():
        node, M, anc = info[eid]
        compare_leaf(ctx, 'svg2paths', node, D.IDENT, p, False)
    # -- SaxDocument ---------------------------------------------------------------------------------------------
    ctx.count('reader:SaxDocument')
    d = tempfile.mkdtemp(prefix='c17_')
    try:
        fn = os.path.join(d, 'doc.svg')
        with open(fn, 'w') as f:
            f.write(text)
        sax = ctx.lib('SaxDocument', SaxDocument, fn)
        flat = ctx.lib('SaxDocument.flatten_all_paths', sax.flatten_all_paths)
    finally:
        try:
            os.remove(os.path.join(d, 'doc.svg'))
        except OSError:
            pass
        os.rmdir(d)
    ctx.check(len(flat) == len(lv), 'SaxDocument/count', 'SaxDocument returned %d paths for %d leaves' % (len(flat), len(lv)))
    for (node, chain, anc), p in zip(lv, flat):
        M = info[node['id']][1]
        compare_leaf(ctx, 'SaxDocument', node, M, p, True)


def _all_nodes(nodes):
    out = []
    for n in nodes:
        out.append(n)
        if n['tag'] == 'g':
            out.extend(_all_nodes(n['children']))
    return out
