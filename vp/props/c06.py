"""C06 -- length() is the true arc length: bracketed, additive, finite, scipy-independent."""
import math

import numpy as np
from hypothesis import strategies as st

from vp import gen
from vp.ref import bez_ref as R

ID = 'C06'
RULE = ("segments of all four types from the class mix (generic, collinear monotone, collinear fold-back, repeated "
        "control points, degree-elevated, axis-aligned, cusp-like; arcs of every rotation/eccentricity) at scales "
        "1e-3..1e6, intervals (0,1), (0,t), (t,1), (t0,t1); paths of such segments; both configurations (scipy / "
        "pure-Python fallback). Oracle: rigorous bracket [sum of chords, sum of control polygons] of a 256-piece "
        "subdivision (arcs: chords / tangent polygons of the stored centre form), composite Gauss-Legendre, additivity, "
        "path = sum of segments. Non-trivial = segment is not a Line and the interval is not degenerate; distinct by "
        "(segment, interval, config).")
ASSUMPTIONS = ["tolerance 1e-6 relative, 5e-3 where the speed vanishes inside the closed interval; the harness reads 'vanishes' numerically: min |B'| <= 1e-4 max |B'| on the interval (a near-cusp defeats numerical integration exactly like a cusp: scipy quad and the chord recursion are both off by ~1e-5 there)", "absolute floor 1e-10 (the library requests absolute error 1e-12 from quad by default)",
               "arc lengths are bracketed for the curve given by the library's stored centre parameters (C04 owns those)",
               "no-scipy configuration is run on fewer cases and mostly at scales <= 1e2 (the fallback needs seconds per call at 1e6)"]
RULE += ' Also: Path cases continue with an edit of the queried path (end/start assignment, replace, append, delete, insert) and compare the path, its reversed copy and its segments with fresh ones.'   # added after the seeded-change rounds (DESIGN.md section 10)
CONFIGS = ['scipy', 'noscipy']
BUDGET = {'quick': {'scipy': 6000, 'noscipy': 480}, 'thorough': {'scipy': 150000, 'noscipy': 6000}}
REQUIRED = ['kind:Q', 'kind:C', 'kind:A', 'kind:L', 'class:collinear', 'class:foldback', 'speed_zero_in_interval', 'path', 'path_edited_after_queries']
CASE_TIMEOUT = 120
TIME_LIMIT = {'quick': 280, 'thorough': 2400}

EPS = 2.0 ** -52
GL_X, GL_W = np.polynomial.legendre.leggauss(20)


def strategy(tier, config):
    if config == 'noscipy':
        sc = st.sampled_from([1e-3, 1e-2, 1.0, 1.0, 1.0, 1.0, 1e2, 1e2] + ([1e4, 1e4, 1e6] if tier == 'thorough' else []))
    else:
        sc = gen.scales

    @st.composite
    def s(draw):
        what = draw(st.sampled_from(['seg', 'seg', 'seg', 'seg', 'path']))
        if what == 'path':
            specs = draw(gen.chain_specs(min_size=2, max_size=4, scale=draw(sc.filter(lambda v: 1.0 <= v <= 1e4)), unequal=True,
                                         zero_len_prob=8, break_prob=draw(st.sampled_from([0, 20]))))
            return {'what': 'path', 'segs': specs, 'edit': draw(st.integers(0, 7))}
        if draw(st.integers(0, 3)) == 0:
            a = draw(gen.arc_center_form(scale_strategy=sc))
            spec, tag = a['spec'], 'arc'
        else:
            b = draw(gen.bezier_spec(scale_strategy=sc))
            spec, tag = b['spec'], b['tag']
        kind = draw(st.sampled_from(['full', 'full', '0t', 't1', 't0t1', 't0t1']))
        a_, b_ = sorted([draw(gen.ts_unit), draw(gen.ts_unit)])
        mid = draw(gen.floats_in(0.0, 1.0))
        return {'what': 'seg', 'spec': spec, 'tag': tag, 'interval': kind, 't0': a_, 't1': b_, 'tm': mid}
    return s()


# ---------------------------------------------------------------------------
# reference lengths
# ---------------------------------------------------------------------------

def bez_speed(cpts, t):
    n = len(cpts) - 1
    d = [n * (cpts[i + 1] - cpts[i]) for i in range(n)]
    return abs(R.fpoint(d, t)) if d else 0.0


def bez_speed_min(cpts, t0, t1):
    """(min speed, argmin, max speed) on [t0,t1] by sampling + golden refinement"""
    N = 256
    ts = [t0 + (t1 - t0) * i / N for i in range(N + 1)]
    vs = [bez_speed(cpts, t) for t in ts]
    i = min(range(N + 1), key=lambda j: vs[j])
    lo, hi = ts[max(0, i - 1)], ts[min(N, i + 1)]
    g = (math.sqrt(5) - 1) / 2
    a, b = lo, hi
    c, d = b - g * (b - a), a + g * (b - a)
    fc, fd = bez_speed(cpts, c), bez_speed(cpts, d)
    for _ in range(80):
        if fc < fd:
            b, d, fd = d, c, fc
            c = b - g * (b - a)
            fc = bez_speed(cpts, c)
        else:
            a, c, fc = c, d, fd
            d = a + g * (b - a)
            fd = bez_speed(cpts, d)
    tm = (a + b) / 2
    return min(min(vs), bez_speed(cpts, tm)), tm, max(vs)


def _gl(speed, a, b, pieces):
    total = 0.0
    for i in range(pieces):
        u0 = a + (b - a) * i / pieces
        u1 = a + (b - a) * (i + 1) / pieces
        h = (u1 - u0) / 2
        m = (u1 + u0) / 2
        total += h * sum(w * speed(m + h * x) for x, w in zip(GL_X, GL_W))
    return total


def gl_length(speed, t0, t1, breaks=()):
    """composite 20-point Gauss-Legendre, pieces doubled until two levels agree to 1e-10 relative
    (returns (value, converged))"""
    pts = sorted({t0, t1} | {b for b in breaks if t0 < b < t1})
    total = 0.0
    ok = True
    for a, b in zip(pts, pts[1:]):
        prev = _gl(speed, a, b, 4)
        pieces = 8
        while True:
            cur = _gl(speed, a, b, pieces)
            if abs(cur - prev) <= 1e-10 * abs(cur) + 1e-300:
                break
            if pieces >= 512:
                ok = abs(cur - prev) <= 1e-7 * abs(cur)
                break
            prev = cur
            pieces *= 2
        total += cur
    return total, ok


def arc_cf(arc):
    return {'c': complex(arc.center), 'rx': float(arc.radius.real), 'ry': float(arc.radius.imag),
            'phi': math.radians(float(arc.rotation)), 'th': math.radians(float(arc.theta)), 'dl': math.radians(float(arc.delta))}


def arc_pt(cf, t):
    a = cf['th'] + t * cf['dl']
    return cf['c'] + complex(math.cos(cf['phi']), math.sin(cf['phi'])) * complex(cf['rx'] * math.cos(a), cf['ry'] * math.sin(a))


def arc_dpt(cf, t):
    a = cf['th'] + t * cf['dl']
    return cf['dl'] * complex(math.cos(cf['phi']), math.sin(cf['phi'])) * complex(-cf['rx'] * math.sin(a), cf['ry'] * math.cos(a))


def arc_bracket(cf, t0, t1, pieces=720):
    lo = hi = 0.0
    for i in range(pieces):
        u0 = t0 + (t1 - t0) * i / pieces
        u1 = t0 + (t1 - t0) * (i + 1) / pieces
        p0, p1 = arc_pt(cf, u0), arc_pt(cf, u1)
        half = (u1 - u0) * cf['dl'] / 2
        # tangent-polygon vertex: affine image of the circle's P(a) + tan(half) * dP/da
        x = p0 + math.tan(half) * (arc_dpt(cf, u0) / cf['dl'])
        lo += abs(p1 - p0)
        hi += abs(x - p0) + abs(p1 - x)
    return lo, hi


class _DegenerateArc(Exception):
    pass


def ref_length(spec, seg, t0, t1):
    """returns (lo, hi, gl, singular)"""
    if spec[0] == 'A':
        cf = arc_cf(seg)
        if cf['dl'] == 0:
            raise _DegenerateArc()
        lo, hi = arc_bracket(cf, t0, t1)
        gl, ok = gl_length(lambda t: abs(arc_dpt(cf, t)), t0, t1)
        return lo, hi, (gl if ok else None), False
    cpts = [gen.C(p) for p in spec[1:]]
    lo, hi = R.length_bracket(cpts, t0, t1, pieces=256)
    vmin, tmin, vmax = bez_speed_min(cpts, t0, t1)
    singular = vmax > 0 and vmin <= 1e-4 * vmax
    gl, ok = gl_length(lambda t: bez_speed(cpts, t), t0, t1, breaks=(tmin,) if singular else ())
    return lo, hi, (gl if ok else None), singular


def check(case, ctx):
    if case['what'] == 'path':
        return check_path(case, ctx)
    spec = case['spec']
    seg = ctx.lib('build', gen.build_seg, spec)
    kind = spec[0]
    ctx.count('kind:' + kind)
    ctx.count('class:' + case['tag'])
    iv = case['interval']
    t0, t1 = {'full': (0.0, 1.0), '0t': (0.0, case['t1']), 't1': (case['t0'], 1.0), 't0t1': (case['t0'], case['t1'])}[iv]
    size = gen.spec_size([spec])
    ref = _check_interval(ctx, spec, seg, t0, t1, size, iv)
    # additivity over adjacent sub-intervals
    tm = t0 + (t1 - t0) * case['tm']
    if t0 < tm < t1:
        la = float(ctx.lib('length', seg.length, t0, tm))
        lb = float(ctx.lib('length', seg.length, tm, t1))
        lc = float(ctx.lib('length', seg.length, t0, t1))
        lo, hi, gl, singular = ref
        tol = (5e-3 if singular else 1e-6)
        ctx.check(abs(la + lb - lc) <= tol * abs(lc) + 3e-10 + 256 * EPS * size, 'additivity/%s' % kind,
                  'length(%r,%r)+length(%r,%r)=%r but length(%r,%r)=%r' % (t0, tm, tm, t1, la + lb, t0, t1, lc))
    # cached full length answers the same after sub-interval queries
    if iv != 'full':
        f1 = float(ctx.lib('length', seg.length))
        f2 = float(ctx.lib('length', seg.length, 0, 1))
        ctx.check(f1 == f2 or abs(f1 - f2) <= 1e-9 * abs(f1), 'full_length_unstable/%s' % kind, 'length()=%r then length(0,1)=%r' % (f1, f2))


def _check_interval(ctx, spec, seg, t0, t1, size, iv):
    kind = spec[0]
    if t0 == 0.0 and t1 == 1.0:
        got = ctx.lib('length/' + kind, seg.length)
    else:
        got = ctx.lib('length/' + kind, seg.length, t0, t1)
    try:
        got = float(got)
    except Exception:
        ctx.fail('not_a_number/%s' % kind, 'length(%r,%r) returned %r' % (t0, t1, got))
    try:
        lo, hi, gl, singular = ref_length(spec, seg, t0, t1)
    except _DegenerateArc:
        ctx.discard('arc whose span collapsed to zero (radii >> chord: C04 finding KF01)')
    # for tiny parameter intervals far from the origin the chord/polygon bracket is computed from differences of nearly equal
    # points and is itself unreliable: it is used only when it is consistent with the derivative-based quadrature
    if gl is not None and not (lo * (1 - 1e-9) - 1e-300 <= gl <= hi * (1 + 1e-9) + 1e-300):
        ctx.count('bracket_inconsistent_with_quadrature_skipped')
        lo, hi = gl, gl
    if singular:
        ctx.count('speed_zero_in_interval')
    if kind != 'L' and t1 > t0:
        ctx.nontrivial(key=[spec, t0, t1])
    ctx.check(math.isfinite(got), 'not_finite/%s%s' % (kind, '/singular' if singular else ''),
              'length(%r,%r)=%r for %r (true length in [%r,%r])' % (t0, t1, got, spec, lo, hi))
    tol = 5e-3 if singular else 1e-6
    # absolute floor: the library's documented default absolute error request (LENGTH_ERROR = 1e-12) and rounding
    # (the pure-Python fallback adds up to thousands of chords between evaluated points, each carrying the rounding of a point
    # evaluation, ~eps x coordinates: on a 1e-9 parameter interval of a curve of size 6600 it returned 7.7e-10 for a true 4e-15)
    slack = 1e-10 + (8192 if ctx.config == 'noscipy' else 256) * EPS * size
    ctx.check(got >= -256 * EPS * size, 'negative/%s' % kind, 'length(%r,%r)=%r' % (t0, t1, got))
    ctx.check(lo * (1 - tol) - slack <= got <= hi * (1 + tol) + slack, 'outside_bracket/%s%s' % (kind, '/singular' if singular else ''),
              'length(%r,%r)=%r outside the bracket [%r, %r] (Gauss-Legendre %r)' % (t0, t1, got, lo, hi, gl))
    if gl is None:
        ctx.count('quadrature_reference_not_converged')
        return lo, hi, gl, singular
    ctx.check(abs(got - gl) <= tol * max(gl, got) + slack, 'vs_quadrature/%s%s' % (kind, '/singular' if singular else ''),
              'length(%r,%r)=%r, Gauss-Legendre %r (bracket [%r,%r])' % (t0, t1, got, gl, lo, hi))
    return lo, hi, gl, singular


def check_path(case, ctx):
    specs = case['segs']
    # conditioning: a segment that is smaller than ~1e-7 of its distance from the origin has no significant digits left in the
    # differences of its own coordinates (neither for the library nor for the reference)
    for sp in specs:
        ext = gen.spec_size([sp])
        far = max(abs(gen.C(p)) for p in gen.spec_points(sp))
        if 0 < ext < 1e-7 * far:
            ctx.discard('segment extent below 1e-7 of its coordinates')
    path = ctx.lib('build', gen.build_path, specs)
    ctx.count('path')
    total = ctx.lib('Path.length', path.length)
    parts = [float(ctx.lib('seg.length', s.length)) for s in path]
    want = math.fsum(parts)
    ctx.nontrivial()
    ctx.check(math.isfinite(float(total)) and float(total) >= 0, 'path/not_finite', 'Path.length()=%r' % total)
    ctx.check(abs(float(total) - want) <= 1e-12 * want + 1e-300, 'path/sum', 'Path.length()=%r but sum of segment lengths=%r' % (total, want))
    # fresh path object, same segments: same answer (length is not order/cache dependent)
    from svgpathtools import Path
    again = float(Path(*[gen.build_seg(s) for s in specs]).length())
    ctx.check(abs(again - want) <= 1e-9 * want + 1e-300, 'path/fresh', 'a fresh path gives %r, sum is %r' % (again, want))
    # a path assembled step by step, with length queries in between, still reports the sum of its segments
    segs2 = [gen.build_seg(s) for s in specs]
    p2 = Path(segs2[0])
    p2.length()
    for i, sg in enumerate(segs2[1:]):
        if i % 3 == 0:
            p2.append(sg)
        elif i % 3 == 1:
            p2.extend([sg])
        else:
            p2.insert(len(p2), sg)
        if i % 2 == 0:
            p2.length()
    inc = float(ctx.lib('Path.length', p2.length))
    ctx.check(abs(inc - want) <= 1e-9 * want + 1e-300, 'path/incremental', 'a path built by append/extend/insert with length() calls in between reports %r, sum of segments is %r' % (inc, want))
    size = gen.spec_size(specs)
    for spec, seg in zip(specs, path):
        if len({(p[0], p[1]) for p in gen.spec_points(spec)}) < 2 and spec[0] != 'A':
            ctx.check(float(seg.length()) == 0.0 or abs(float(seg.length())) <= 64 * EPS * size, 'path/zero_length_segment', 'zero-length %s has length %r' % (spec[0], seg.length()))
            continue
        _check_interval(ctx, spec, seg, 0.0, 1.0, gen.spec_size([spec]), 'full')
    _check_edited(case, ctx, path, size)


def _check_edited(case, ctx, path, size):
    """the same Path object, whose caches (and those of its segments) are filled by now, is edited through its own
    interface; the path and its reversed copy must report the sum of the lengths of the segments they now hold"""
    from svgpathtools import Path, Line, Arc
    e = case.get('edit', 0)
    z = complex(size * 1.3, -size * 0.7)
    if e in (0, 1):
        if isinstance(path[-1], Arc):
            return
        path.end = path.end + z
        how = 'end assigned'
    elif e in (2, 3):
        if isinstance(path[0], Arc):
            return
        path.start = path.start - z
        how = 'start assigned'
    elif e == 4:
        path[-1] = Line(path[-1].start, path[-1].end + z)
        how = 'last segment replaced'
    elif e == 5:
        path.append(Line(path.end, path.end + z))
        how = 'segment appended'
    elif e == 6:
        del path[0]
        how = 'first segment deleted'
    else:
        path.insert(1, Line(path[0].end, path[1].start + z))
        how = 'segment inserted'
    ctx.count('path_edited_after_queries')
    fresh = [gen.build_seg(gen.seg_spec_of(sg)) for sg in path]
    want = math.fsum(float(sg.length()) for sg in fresh)
    # a reversed Arc is a newly derived arc (its centre is recomputed from the end points): equal to C04's accuracy only
    rel = 2e-6 if any(isinstance(sg, Arc) for sg in path) else 1e-9
    if e % 2 == 1:
        # the reversed copy is asked first (it may not inherit what was cached before the edit)
        rev = ctx.lib('reversed', path.reversed)
        got = float(ctx.lib('Path.length', rev.length))
        ctx.check(abs(got - want) <= rel * want + 1e-300, 'path/edited/reversed', 'after queries, %s, reversed(): length()=%r, the segments sum to %r' % (how, got, want))
        for a, b in zip(rev, reversed(fresh)):
            la, lb = float(a.length()), float(b.length())
            ctx.check(abs(la - lb) <= (2e-6 if isinstance(a, Arc) else 1e-9) * lb + 1e-12 * want, 'path/edited/reversed_segment', 'after queries, %s, reversed(): segment %r reports length %r, a fresh one %r' % (how, a, la, lb))
    got = float(ctx.lib('Path.length', path.length))
    ctx.check(abs(got - want) <= 1e-9 * want + 1e-300, 'path/edited', 'after queries, %s: length()=%r, the segments sum to %r' % (how, got, want))
    for a, b in zip(path, fresh):
        la, lb = float(a.length()), float(b.length())
        ctx.check(abs(la - lb) <= 1e-9 * lb + 1e-12 * want, 'path/edited/segment', 'after queries, %s: segment %r reports length %r, a fresh one %r' % (how, a, la, lb))
