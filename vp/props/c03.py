"""C03 -- Line/Quadratic/Cubic point, poly, points and derivative are the Bernstein curve."""
from fractions import Fraction as F
import itertools
import math

import numpy as np
from hypothesis import strategies as st

from vp import gen
from vp.ref import bez_ref as R

ID = 'C03'
RULE = ("exhaustive part: per degree 1..3 every assignment of two distinct values to each real/imaginary "
        "component of each control point x (deg+2) dyadic t values, compared exactly (Fractions) -- decides the "
        "polynomial identities because each method is multi-affine in the components and of degree <= deg in t; "
        "generated part: control points from class mix (generic/collinear/fold-back/repeated/degree-elevated/axis) at "
        "scales 1e-3..1e6, t in [-0.25,1.25]. Non-trivial = generated case with >=2 distinct control points and t "
        "not in {0,1}, or a grid case (counted once per (degree, assignment)); distinct by case hash.")
ASSUMPTIONS = ["the methods under test are straight-line polynomial code (read), so the finite grid decides the identity",
               "float comparison uses the bound 64*eps*8*sum|P_i|*max(1,|t|)^deg (DESIGN 1.7)"]
RULE += ' Also: segments that are reversed copies of queried ones or had control points reassigned, copies 1e3..1e9 sizes away from the origin, and integer-coefficient polynomials in four containers.'   # added after the seeded-change rounds (DESIGN.md section 10)
CONFIGS = ['scipy']
BUDGET = {'quick': 24000, 'thorough': 500000}
EXHAUSTIVE_NOTE = "all 2^(2(deg+1)) two-valued component assignments for deg 1,2,3 (16+64+256 cases) x 5 t values x all methods"
REQUIRED = ['grid', 'float:L', 'float:Q', 'float:C', 'reassigned_control_points', 'reversed_copy_of_queried_segment', 'far_from_origin', 'intpoly_fractional_control_points']

EPS = 2.0 ** -52
GRID_T = [F(0), F(1), F(1, 2), F(-1, 4), F(5, 4)]
VALS = [(F(-3), F(2)), (F(5), F(-1)), (F(1), F(7)), (F(-2), F(4)), (F(3), F(-5)), (F(6), F(1)), (F(-4), F(3)), (F(2), F(-6))]


INT_COEFFS = [-2, -1, 0, 1, 3]


def exhaustive(tier, config):
    import itertools
    for deg in (1, 2, 3):
        ncomp = 2 * (deg + 1)
        for bits in range(2 ** ncomp):
            yield {'kind': 'grid', 'deg': deg, 'bits': bits}
    # polynomials given by integer coefficients (highest power first), in each of the containers the helpers accept
    for deg in (1, 2, 3):
        for co in itertools.product(INT_COEFFS, repeat=deg + 1):
            if co[0] != 0:
                yield {'kind': 'intpoly', 'coeffs': list(co)}


def strategy(tier, config):
    @st.composite
    def s(draw):
        b = draw(gen.bezier_spec())
        ts = draw(st.lists(st.one_of(gen.ts_unit, gen.floats_in(-0.25, 1.25)), min_size=1, max_size=3))
        # hist: 0 = fresh object; 1/2 = the object held other control points first, was queried (poly/points/
        # length), then had its control points reassigned (2: length() again before the checks)
        # 3 = the object is the reversed() copy of the mirror-image segment, which had been queried before
        hist = draw(st.sampled_from([0, 0, 0, 1, 2, 3]))
        spec = b['spec']
        if draw(st.integers(0, 4)) == 0:
            # the same curve far from the origin (1e3..1e9 times its size away)
            k = draw(st.sampled_from([1e3, 1e6, 1e9])) * (gen.spec_size([spec]) or 1.0)
            dz = [k * draw(st.sampled_from([1.0, -1.0, 0.5])), k * draw(st.sampled_from([1.0, -0.7, 0.0]))]
            spec = [spec[0]] + [[p[0] + dz[0], p[1] + dz[1]] for p in spec[1:]]
        return {'kind': 'float', 'spec': spec, 'tag': b['tag'], 'ts': ts, 'hist': hist}
    return s()


def _close(ctx, got, want, tol, bucket, what):
    got = complex(got)
    if not (abs(got - want) <= tol):
        ctx.fail(bucket, '%s: got %r want %r (tol %.3g)' % (what, got, want, tol), got=[got.real, got.imag],
                 want=[want.real, want.imag])


def check(case, ctx):
    if case['kind'] == 'grid':
        return check_grid(case, ctx)
    if case['kind'] == 'intpoly':
        return check_intpoly(case, ctx)
    return check_float(case, ctx)


def check_intpoly(case, ctx):
    """control points recovered from a polynomial whose coefficients are Python ints / an integer array / an integer poly1d"""
    from svgpathtools.path import poly2bez
    from svgpathtools.bezier import polynomial2bezier
    co = case['coeffs']                       # highest power first
    n = len(co) - 1
    a = [F(c) for c in co][::-1]              # a[j] = coefficient of t^j
    want = [sum(F(math.comb(i, j), math.comb(n, j)) * a[j] for j in range(i + 1)) for i in range(n + 1)]
    ctx.count('intpoly')
    if any(w.denominator != 1 for w in want):
        ctx.nontrivial(key=co, sample={'integer_coefficients': co, 'control_points': [str(w) for w in want]})
        ctx.count('intpoly_fractional_control_points')
    for label, arg in (('list', list(co)), ('int_array', np.array(co, dtype=int)), ('poly1d', np.poly1d(co)), ('float_list', [float(c) for c in co])):
        got = ctx.lib('polynomial2bezier', polynomial2bezier, arg)
        ok = len(got) == n + 1 and all(abs(complex(g) - float(w)) <= 1e-14 * (1 + abs(float(w))) for g, w in zip(got, want))
        ctx.check(ok, 'intpoly/polynomial2bezier/' + label, 'polynomial2bezier(%s %r) = %r, expected %r' % (label, co, list(got), [float(w) for w in want]))
        seg = ctx.lib('poly2bez', poly2bez, arg)
        bp = seg.bpoints()
        ok = len(bp) == n + 1 and all(abs(complex(g) - float(w)) <= 1e-14 * (1 + abs(float(w))) for g, w in zip(bp, want))
        ctx.check(ok, 'intpoly/poly2bez/' + label, 'poly2bez(%s %r) has control points %r, expected %r' % (label, co, list(bp), [float(w) for w in want]))


def check_grid(case, ctx):
    from svgpathtools.path import Line, QuadraticBezier, CubicBezier, poly2bez, bpoints2bezier, bez2poly
    from svgpathtools.bezier import bezier2polynomial, polynomial2bezier, bezier_point
    deg, bits = case['deg'], case['bits']
    comps = []
    for i in range(2 * (deg + 1)):
        comps.append(VALS[i][(bits >> i) & 1])
    fpts = [(comps[2 * i], comps[2 * i + 1]) for i in range(deg + 1)]
    cpts = [complex(float(p[0]), float(p[1])) for p in fpts]
    if deg == 1 and cpts[0] == cpts[1]:
        ctx.discard('zero-length line')
    seg = [Line, QuadraticBezier, CubicBezier][deg - 1](*cpts)
    ctx.count('grid')
    ctx.nontrivial(sample={'grid': True, 'deg': deg, 'control_points': [[float(a), float(b)] for a, b in fpts]})
    kind = 'LQC'[deg - 1]
    # power coefficients (exact)
    want_co = R.power_coeffs(fpts)  # lowest first
    got_co = ctx.lib('poly', seg.poly, return_coeffs=True)
    got_co = [complex(c) for c in got_co][::-1]
    for j in range(deg + 1):
        ctx.check(got_co[j] == R.to_c(want_co[j]), 'grid/poly/%s' % kind,
                  'poly() coefficient of t^%d is %r, expected %r' % (j, got_co[j], R.to_c(want_co[j])))
    got_b2p = [complex(c) for c in bezier2polynomial(seg.bpoints())][::-1]
    ctx.check(got_b2p == [R.to_c(c) for c in want_co], 'grid/bezier2polynomial/%s' % kind,
              'bezier2polynomial %r != %r' % (got_b2p, want_co))
    got_b2p2 = [complex(c) for c in bez2poly(seg)][::-1]
    ctx.check(got_b2p2 == [R.to_c(c) for c in want_co], 'grid/bez2poly/%s' % kind, 'bez2poly mismatch')
    ctx.check(tuple(seg.bpoints()) == tuple(cpts), 'grid/bpoints/%s' % kind, 'bpoints() != control points')
    ctx.check(bpoints2bezier(seg.bpoints()) == seg, 'grid/bpoints2bezier/%s' % kind, 'bpoints2bezier(bpoints()) != seg')
    # polynomial2bezier is linear in the coefficients: exact on Fraction real parts and imaginary parts
    for part in (0, 1):
        co = [c[part] for c in want_co][::-1]  # highest first, Fractions
        back = polynomial2bezier(co)
        ctx.check([F(b) for b in back] == [p[part] for p in fpts], 'grid/polynomial2bezier/%s' % kind,
                  'polynomial2bezier(%r) = %r, expected %r' % (co, back, [p[part] for p in fpts]))
    # in complex floats: poly2bez(poly()) reproduces the curve within rounding
    back = poly2bez(seg.poly())
    # (np.poly1d drops vanishing leading coefficients, so `back` may be of lower degree: compare curves)
    for t in GRID_T:
        tf = float(t)
        want = R.to_c(R.bern_point(fpts, t))
        got = complex(ctx.lib('point', seg.point, tf))
        ctx.check(got == want, 'grid/point/%s' % kind, 'point(%s) = %r, Bernstein sum = %r' % (t, got, want))
        got = complex(bezier_point(seg.bpoints(), tf))
        ctx.check(got == want, 'grid/bezier_point/%s' % kind, 'bezier_point(%s) = %r, want %r' % (t, got, want))
        got = complex(seg.poly()(tf))
        ctx.check(got == want, 'grid/poly_eval/%s' % kind, 'poly()(%s) = %r, want %r' % (t, got, want))
        got = complex(back.point(tf))
        ctx.check(abs(got - want) <= 64 * EPS * 8 * R.mag_sum(fpts) * 4, 'grid/poly2bez/%s' % kind,
                  'poly2bez(poly()).point(%s) = %r, want %r' % (t, got, want))
        got = complex(np.asarray(seg.points([tf, 0.5]))[0])
        ctx.check(got == want, 'grid/points/%s' % kind, 'points([%s])[0] = %r, want %r' % (t, got, want))
        for n in range(1, deg + 3):
            want = R.to_c(R.bern_deriv(fpts, t, n))
            got = complex(ctx.lib('derivative', seg.derivative, tf, n))
            ctx.check(got == want, 'grid/derivative/%s/n%d' % (kind, min(n, deg + 1)),
                      'derivative(%s, n=%d) = %r, want %r' % (t, n, got, want))
    for n in (0, -1):
        try:
            seg.derivative(0.5, n)
        except ValueError:
            pass
        except Exception as e:
            ctx.fail('grid/derivative/n<=0/%s' % kind, 'derivative(n=%d) raised %s, expected ValueError' % (n, type(e).__name__))
        else:
            ctx.fail('grid/derivative/n<=0/%s' % kind, 'derivative(n=%d) returned instead of raising ValueError' % n)


def check_float(case, ctx):
    from svgpathtools.path import poly2bez, bpoints2bezier, bez2poly
    from svgpathtools.bezier import bezier_point
    spec = case['spec']
    kind = spec[0]
    pts = spec[1:]
    deg = len(pts) - 1
    cpts = [gen.C(p) for p in pts]
    hist = case.get('hist', 0)
    if hist == 3:
        seg0 = gen.build_seg([spec[0]] + list(reversed(spec[1:])))
        seg0.poly(); seg0.points([0.25, 0.75]); seg0.point(0.5); seg0.length(); seg0.bbox()
        seg = ctx.lib('reversed', seg0.reversed)
        ctx.count('reversed_copy_of_queried_segment')
    elif hist:
        other = [spec[0]] + [[p[0] * 0.5 + 1.0, p[1] * 2.0 - 3.0] for p in pts]
        if kind == 'L' and other[1] == other[2]:
            other[2] = [other[2][0] + 1.0, other[2][1]]
        seg = gen.build_seg(other)
        seg.poly(); seg.points([0.25, 0.75]); seg.point(0.5); seg.length(); seg.bpoints()
        names = {'L': ['start', 'end'], 'Q': ['start', 'control', 'end'],
                 'C': ['start', 'control1', 'control2', 'end']}[kind]
        for nm, z in zip(names, cpts):
            setattr(seg, nm, z)
        if hist == 2:
            seg.length()
        ctx.count('reassigned_control_points')
    else:
        seg = gen.build_seg(spec)
    fpts = [R.fpt(p) for p in pts]
    ctx.count('float:' + kind)
    ext = gen.spec_size([spec])
    if ext > 0 and max(abs(c) for c in cpts) > 100 * ext:
        ctx.count('far_from_origin')
    ctx.count('class:' + case['tag'])
    S = sum(abs(c) for c in cpts)
    if S == 0 or not math.isfinite(S):
        ctx.discard('degenerate magnitude')
    got0 = complex(ctx.lib('point', seg.point, 0.0))
    got1 = complex(ctx.lib('point', seg.point, 1.0))
    tol1 = 64 * EPS * 8 * S
    _close(ctx, got0, cpts[0], tol1, 'float/point0/%s' % kind, 'point(0) vs start')
    _close(ctx, got1, cpts[-1], tol1, 'float/point1/%s' % kind, 'point(1) vs end')
    ctx.check(bpoints2bezier(seg.bpoints()) == seg, 'float/bpoints2bezier/%s' % kind, 'bpoints2bezier(bpoints()) != seg')
    back = ctx.lib('poly2bez', poly2bez, seg.poly())
    co_want = R.power_coeffs(fpts)
    co_got = [complex(c) for c in bez2poly(seg)][::-1]
    for j in range(deg + 1):
        _close(ctx, co_got[j], R.to_c(co_want[j]), tol1, 'float/bez2poly/%s' % kind, 'coefficient of t^%d' % j)
    for t in case['ts']:
        tq = F(t)
        tol = 64 * EPS * 8 * S * max(1.0, abs(t)) ** deg
        want = R.to_c(R.bern_point(fpts, tq))
        if len({(p[0], p[1]) for p in pts}) >= 2 and t not in (0.0, 1.0):
            ctx.nontrivial()
        _close(ctx, ctx.lib('point', seg.point, t), want, tol, 'float/point/%s' % kind, 'point(%r)' % t)
        _close(ctx, bezier_point(seg.bpoints(), t), want, tol, 'float/bezier_point/%s' % kind, 'bezier_point(%r)' % t)
        _close(ctx, seg.poly()(t), want, tol, 'float/poly_eval/%s' % kind, 'poly()(%r)' % t)
        arr = np.asarray(seg.points([0.5, t]))
        _close(ctx, arr[1], want, tol, 'float/points/%s' % kind, 'points([.5,%r])[1]' % t)
        _close(ctx, back.point(t), want, 4 * tol, 'float/poly2bez/%s' % kind, 'poly2bez(poly()).point(%r)' % t)
        for n in range(1, deg + 3):
            if kind == 'L' and cpts[0] == cpts[1]:
                break
            want = R.to_c(R.bern_deriv(fpts, tq, n))
            got = ctx.lib('derivative', seg.derivative, t, n)
            _close(ctx, got, want, 6 * tol * 6, 'float/derivative/%s/n%d' % (kind, min(n, deg + 1)),
                   'derivative(%r, n=%d)' % (t, n))
