"""C12 -- Every transversal crossing is reported, exactly once."""
from fractions import Fraction as F
import math

import numpy as np
from hypothesis import strategies as st

from vp import gen
from vp.ref import xgeom as X
from vp.ref import exactgeom as E
from vp.props import c11

ID = 'C12'
RULE = ("(a) constructed crossings: both curves are forced through a common point P at parameters u1,u2 in (0.05,0.95) with "
        "tangents at >= 6 deg, every type pair (two arcs only when both are circular and unrotated); all other crossings of the "
        "pair are located by the harness (400-segment polylines) and the case is kept only if none is within 0.02 in either "
        "parameter; (b) Line/Line, Line/Quadratic, Line/Cubic in both orders with small integer coordinates: exact crossing "
        "count by Sturm sequences over the rationals, cases with a root at/near an end point, a multiple or nearly multiple "
        "root, or a line parameter within 1e-9 of 0/1 discarded; (c) pairs of paths (2-4 segments) whose crossings (polyline "
        "finder) are transversal and strictly inside segments. Non-trivial = every kept case (each has >= 1 guaranteed "
        "crossing, or an exactly known count); distinct by case hash.")
ASSUMPTIONS = ["(a)/(c): the polyline crossing finder (vp/ref/xgeom.py) locates other crossings to ~1e-4 in parameter; cases it "
               "cannot classify are discarded and counted", "(b): vp/ref/exactgeom.py Sturm sequences in Fractions"]
RULE += ' Also: Operands with a past (queried / reversed copies), exactly vertical and horizontal lines, arch-shaped and degree-elevated cubics, clockwise arcs of more than 300 degrees.'   # added after the seeded-change rounds (DESIGN.md section 10)
CONFIGS = ['scipy']
BUDGET = {'quick': 16000, 'thorough': 300000}
REQUIRED = ['a:axis_parallel_line', 'a:pre:queried', 'a:pre:from_reversed', 'a:special:arch', 'a:special:long_arc', 'a:kept', 'a:pair:AC', 'a:pair:CA', 'a:pair:LA', 'a:pair:QQ', 'a:pair:CC', 'a:arc_sweep0', 'a:arc_sweep1', 'b:kept',
            'b:count1', 'b:count2', 'b:count0', 'c:kept', 'b:count3']
CASE_TIMEOUT = 20
TIME_LIMIT = {'quick': 250, 'thorough': 3300}


@st.composite
def constructed(draw):
    sc = draw(st.sampled_from([1e-2, 1.0, 1.0, 1e3]))
    k1 = draw(st.sampled_from('LQCA'))
    k2 = draw(st.sampled_from('LQCA'))
    P = complex(draw(gen.coord(sc)), draw(gen.coord(sc)))
    u1 = draw(gen.floats_in(0.05, 0.95))
    u2 = draw(gen.floats_in(0.05, 0.95))
    both_arcs = k1 == 'A' and k2 == 'A'

    @st.composite
    def arc_through(d, u):
        a = d(gen.arc_center_form(scale_strategy=st.just(sc), max_ecc=8, circular=True if both_arcs else d(st.sampled_from([True, None, None])),
                                  rotated=False if both_arcs else d(st.sampled_from([False, None, None]))))
        spec = a['spec']
        q = X.spec_eval(spec, np.array([u]))[0]
        return X.shift_spec(spec, P - q)
    special = draw(st.sampled_from(['none', 'none', 'none', 'arch', 'long_arc']))
    if special == 'arch' and k2 in 'QC':
        # a cubic whose cubic coefficient vanishes exactly in x and/or y (symmetric arch, equally spaced abscissae, exact degree
        # elevation with integers divisible by 3); the crossing point is taken on it
        w, h = draw(st.integers(1, 6)) * 3.0 * sc, draw(st.integers(1, 6)) * 3.0 * sc * draw(st.sampled_from([1, -1]))
        o = complex(draw(gen.coord(sc)), draw(gen.coord(sc)))
        kind = draw(st.sampled_from(['arch', 'elevated']))
        if kind == 'arch':
            pts = [o, o + complex(w / 3, h), o + complex(2 * w / 3, h), o + complex(w, 0)]
        else:
            q0, q1, q2 = o, o + complex(w / 2 * draw(st.sampled_from([1.0, 0.5])), h), o + complex(w, h / 3)
            pts = [q0, q0 + (q1 - q0) * 2 / 3, q2 + (q1 - q2) * 2 / 3, q2]
        s1 = ['C'] + [[z.real, z.imag] for z in pts]
        k1 = 'C'
        Pz = X.spec_eval(s1, np.array([u1]))[0]
        P = complex(Pz)
    elif special == 'long_arc' and k2 in 'QC':
        # a clockwise (or counter-clockwise) arc of more than 300 degrees crossed on its last stretch
        a = draw(gen.arc_center_form(scale_strategy=st.just(sc), max_ecc=4))
        spec = list(a['spec'])
        mag = draw(gen.floats_in(300.0, 355.0))
        sw = draw(st.integers(0, 1))
        st_ = gen.ellipse_point(a['center'], a['rx'], a['ry'], a['rot'], a['theta1'])
        en = gen.ellipse_point(a['center'], a['rx'], a['ry'], a['rot'], a['theta1'] + (mag if sw else -mag))
        s1 = ['A', st_, [a['rx'], a['ry']], a['rot'], 1, sw, en]
        k1 = 'A'
        u1 = draw(gen.floats_in(0.8, 0.95))
        P = complex(X.spec_eval(s1, np.array([u1]))[0])
    if special in ('arch', 'long_arc') and k2 in 'QC':
        pass
    else:
        s1 = draw(arc_through(u1)) if k1 == 'A' else draw(c11.curve_through(k1, P, u1, sc))
    s2 = draw(arc_through(u2)) if k2 == 'A' else draw(c11.curve_through(k2, P, u2, sc))
    return {'what': 'a', 'scale': sc, 's1': s1, 's2': s2, 'P': [P.real, P.imag], 'u1': u1, 'u2': u2, 'special': special if k2 in 'QC' else 'none',
            'pre': draw(st.sampled_from(['none', 'none', 'none', 'queried', 'from_reversed']))}


ipt = st.tuples(st.integers(-8, 8), st.integers(-8, 8)).map(list)
hpt = st.tuples(st.integers(-8, 8), st.integers(-8, 8)).map(lambda p: [p[0] + 0.5, p[1] + 0.25])   # exactly representable


@st.composite
def exact_case(draw):
    deg = draw(st.sampled_from([1, 2, 2, 3, 3, 3]))
    mode = draw(st.sampled_from(['random', 'random', 'zigzag']))
    if mode == 'zigzag' and deg >= 2:
        # control polygon oscillating about a nearly horizontal (or vertical) line: 2-3 crossings are common
        xs = sorted(draw(st.lists(st.integers(-8, 8), min_size=deg + 1, max_size=deg + 1, unique=True)))
        amp = [draw(st.integers(2, 8)) * (1 if i % 2 == 0 else -1) * draw(st.sampled_from([1, 1, 1, -1])) for i in range(deg + 1)]
        bez = [[x, a] for x, a in zip(xs, amp)]
        line = [[-9.5, draw(st.integers(-2, 2)) + 0.25], [9.5, draw(st.integers(-2, 2)) + 0.75]]
        if draw(st.booleans()):
            bez = [[p[1], p[0]] for p in bez]
            line = [[p[1], p[0]] for p in line]
    else:
        line = [draw(hpt), draw(hpt)]
        bez = draw(st.lists(ipt, min_size=deg + 1, max_size=deg + 1, unique_by=lambda p: tuple(p)))
    order = draw(st.sampled_from(['line_first', 'bezier_first']))
    return {'what': 'b', 'line': line, 'bez': bez, 'order': order}


@st.composite
def paths_case(draw):
    c = draw(c11.paths_case())
    c['what'] = 'c'
    return c


def strategy(tier, config):
    return st.one_of(constructed(), constructed(), exact_case(), exact_case(), paths_case())


def check(case, ctx):
    w = case['what']
    if w == 'a':
        return check_constructed(case, ctx)
    if w == 'b':
        return check_exact(case, ctx)
    return check_paths(case, ctx)


# ---------------------------------------------------------------------------
# (a)
# ---------------------------------------------------------------------------

def check_constructed(case, ctx):
    s1, s2 = case['s1'], case['s2']
    sc = case['scale']
    if not (c11.finite_spec(s1) and c11.finite_spec(s2) and c11.admissible(s1, sc) and c11.admissible(s2, sc)) or s1 == s2:
        ctx.discard('inadmissible segment')
    if c11.general_arc_pair(s1, s2):
        ctx.discard('general arc-arc pair')
    u1, u2 = case['u1'], case['u2']
    P = X.C(case['P'])
    # transversality at P
    t1, t2 = X.spec_tangent(s1, u1), X.spec_tangent(s2, u2)
    if abs(t1) == 0 or abs(t2) == 0:
        ctx.discard('vanishing tangent at the crossing')
    sin_a = abs(t1.real * t2.imag - t1.imag * t2.real) / (abs(t1) * abs(t2))
    if sin_a < math.sin(math.radians(6)):
        ctx.discard('crossing angle below 6 degrees')
    size = max(gen.spec_size([s1]), gen.spec_size([s2]))
    # regular crossing: the speed of both curves at P is not (nearly) zero (a cusp has no tangent to be transversal to)
    if abs(t1) < 1e-2 * gen.spec_size([s1]) or abs(t2) < 1e-2 * gen.spec_size([s2]):
        ctx.discard('(near-)cusp at the crossing')
    # general position: no end point of either curve on the other curve, and neither curve passes through P twice
    grid = np.linspace(0.0, 1.0, 1201)
    c1, c2 = X.spec_eval(s1, grid), X.spec_eval(s2, grid)
    for ends, other in ((c1[[0, -1]], c2), (c2[[0, -1]], c1)):
        for e in ends:
            if np.abs(other - e).min() < 5e-3 * size:
                ctx.discard('an end point of one curve lies on (or next to) the other curve')
    for cv, u in ((c1, u1), (c2, u2)):
        far = np.abs(grid - u) > 0.03
        if np.abs(cv[far] - P).min() < 5e-3 * size:
            ctx.discard('a curve passes through the crossing point twice')
    p1 = X.spec_eval(s1, np.array([u1]))[0]
    p2 = X.spec_eval(s2, np.array([u2]))[0]
    if abs(p1 - P) > 1e-9 * size or abs(p2 - P) > 1e-9 * size:
        ctx.discard('construction lost accuracy (ill-conditioned control point)')
    # other crossings of the same pair
    others = X.polyline_crossings(s1, s2, n=400)
    mine = [o for o in others if abs(o[0] - u1) <= 0.004 and abs(o[1] - u2) <= 0.004]
    if not mine:
        ctx.discard('constructed crossing not confirmed by the polyline finder')
    for o in others:
        if o in mine:
            continue
        if abs(o[0] - u1) <= 0.02 or abs(o[1] - u2) <= 0.02:
            ctx.discard('another crossing within 0.02 in a parameter')
    a = ctx.lib('build', gen.build_seg, s1)
    b = ctx.lib('build', gen.build_seg, s2)
    if type(a) is type(b) and a == b:
        ctx.discard('identical segments')
    pre = case.get('pre', 'none')
    if pre == 'queried':
        # operands with a past: their caches are filled by other queries first
        for sg in (a, b):
            ctx.lib('warm', sg.length)
            ctx.lib('warm', sg.bbox)
            ctx.lib('warm', sg.point, 0.3)
        ctx.count('a:pre:queried')
    elif pre == 'from_reversed':
        # ... or are the product of reversed() applied to the mirror-image segments (same curves, same parameterisation)
        from vp.props.c09 import _rev_spec
        a = ctx.lib('reversed', ctx.lib('build', gen.build_seg, _rev_spec(s1)).reversed)
        b = ctx.lib('reversed', ctx.lib('build', gen.build_seg, _rev_spec(s2)).reversed)
        ctx.count('a:pre:from_reversed')
    pair = s1[0] + s2[0]
    ctx.count('a:kept')
    for sp, other in ((s1, s2), (s2, s1)):
        if sp[0] == 'L' and (sp[1][0] == sp[2][0] or sp[1][1] == sp[2][1]):
            ctx.count('a:axis_parallel_line')
            if other[0] == 'A' and other[3] % 360 == 0 and abs(other[2][0]) != abs(other[2][1]):
                ctx.count('a:axis_parallel_line_vs_unrotated_ellipse')
    if case.get('special', 'none') != 'none':
        ctx.count('a:special:' + case['special'])
    ctx.count('a:pair:' + pair)
    for s in (s1, s2):
        if s[0] == 'A':
            ctx.count('a:arc_sweep%d' % s[5])
            ctx.count('a:arc_rotated' if s[3] % 360 else 'a:arc_unrotated')
    ctx.nontrivial()
    res = ctx.lib('intersect/' + pair, a.intersect, b)
    hits = [(float(x), float(y)) for x, y in res if abs(float(x) - u1) <= 1e-4 and abs(float(y) - u2) <= 1e-4]
    arcinfo = ''
    for s in (s1, s2):
        if s[0] == 'A':
            arcinfo += '/sweep%d%s' % (s[5], '/rot' if s[3] % 360 else '')
    if len(hits) == 0:
        ctx.fail('a/lost/%s%s' % (pair, arcinfo), 'the crossing at (%r, %r) is not reported: %s.intersect returned %r'
                 % (u1, u2, pair, [(float(x), float(y)) for x, y in res]))
    if len(hits) > 1:
        ctx.fail('a/duplicated/%s%s' % (pair, arcinfo), 'the crossing at (%r, %r) is reported %d times: %r' % (u1, u2, len(hits), hits))


# ---------------------------------------------------------------------------
# (b)
# ---------------------------------------------------------------------------

def check_exact(case, ctx):
    from svgpathtools import Line, QuadraticBezier, CubicBezier
    A, B = case['line']
    bez = case['bez']
    if A == B or len({tuple(p) for p in bez}) < 2:
        ctx.discard('degenerate')
    deg = len(bez) - 1
    if deg == 1 and bez[0] == bez[1]:
        ctx.discard('degenerate')
    Ax, Ay, Bx, By = F(A[0]), F(A[1]), F(B[0]), F(B[1])   # (halves and quarters: exact)
    px = E.bezier_power([F(p[0]) for p in bez])
    py = E.bezier_power([F(p[1]) for p in bez])
    dx, dy = Bx - Ax, By - Ay
    f = E.padd(E.pscale(E.padd(px, [-Ax]), dy), E.pscale(E.padd(py, [-Ay]), -dx))
    f = E.ptrim(f)
    if f == [0]:
        ctx.discard('bezier lies on the line')
    try:
        n_all = E.count_roots_open(f, F(0), F(1))
        margin = F(1, 10 ** 6)
        n_in = E.count_roots_open(f, margin, 1 - margin)
        if n_all != n_in:
            ctx.discard('crossing within 1e-6 of a Bezier end point')
        roots = E.isolate_roots(f, margin, 1 - margin)
    except ValueError as e:
        ctx.discard('not in general position: %s' % e)
    # nearly multiple roots
    for (a0, b0), (a1, b1) in zip(roots, roots[1:]):
        if a1 - b0 < F(1, 10 ** 4):
            ctx.discard('two crossings closer than 1e-4 (near tangency)')
    # conditioning: |f'(root)| must not be tiny relative to the coefficients (near tangency)
    fp = E.pderiv(f)
    scale = sum(abs(c) for c in f)
    count = 0
    L2 = dx * dx + dy * dy
    s_num = E.padd(E.pscale(E.padd(px, [-Ax]), dx), E.pscale(E.padd(py, [-Ay]), dy))
    for a0, b0 in roots:
        m = (a0 + b0) / 2
        if abs(E.peval(fp, m)) < scale * F(1, 10 ** 4):
            ctx.discard('near tangency')
        s = E.peval(s_num, m) / L2
        if abs(s) < F(1, 10 ** 9) or abs(s - 1) < F(1, 10 ** 9):
            ctx.discard('crossing within 1e-9 of a line end point')
        if 0 < s < 1:
            count += 1
    cls = [Line, QuadraticBezier, CubicBezier][deg - 1]
    bseg = cls(*[complex(p[0], p[1]) for p in bez])
    lseg = Line(complex(A[0], A[1]), complex(B[0], B[1]))
    if deg == 1:
        if bseg == lseg:
            ctx.discard('identical lines')
        # parallel lines are never in general position
        d2x, d2y = bez[1][0] - bez[0][0], bez[1][1] - bez[0][1]
        if dx * d2y - dy * d2x == 0:
            ctx.discard('parallel lines')
    ctx.count('b:kept')
    ctx.count('b:count%d' % count)
    ctx.count('b:deg%d' % deg)
    ctx.nontrivial()
    if case['order'] == 'line_first':
        res = ctx.lib('intersect/L%d' % deg, lseg.intersect, bseg)
        nm = 'Line.intersect(deg%d)' % deg
    else:
        res = ctx.lib('intersect/%dL' % deg, bseg.intersect, lseg)
        nm = 'deg%d.intersect(Line)' % deg
    got = len(res)
    if got != count:
        ctx.fail('b/count/%s/deg%d/%s' % ('missing' if got < count else 'extra', deg, case['order']),
                 '%s reports %d crossings, exact count is %d (line %r, control points %r, returned %r)' % (nm, got, count, case['line'], bez, res))


# ---------------------------------------------------------------------------
# (c)
# ---------------------------------------------------------------------------

def check_paths(case, ctx):
    sc = case['scale']
    P1, P2 = case['p1'], case['p2']
    for s in P1 + P2:
        if not (c11.finite_spec(s) and c11.admissible(s, sc)):
            ctx.discard('inadmissible segment')
    if any(c11.general_arc_pair(x, y) for x in P1 for y in P2):
        ctx.discard('general arc-arc pair')
    expected = []
    for i, x in enumerate(P1):
        for j, y in enumerate(P2):
            if x == y:
                ctx.discard('identical segments')
            cr = X.cluster(X.polyline_crossings(x, y, n=300), 5e-3)
            raw = X.polyline_crossings(x, y, n=300)
            for c in cr:
                if not (0.02 < c[0] < 0.98 and 0.02 < c[1] < 0.98):
                    ctx.discard('crossing near a joint / segment end')
                if c[2] < 0.15:
                    ctx.discard('shallow crossing')
                ra, rb = X.refine_crossing(x, y, c[0], c[1])
                if abs(ra - c[0]) > 0.02 or abs(rb - c[1]) > 0.02:
                    ctx.discard('polyline estimate of a crossing did not refine')
                # regular crossing: where the speed of a curve (nearly) vanishes its parameter is ill-conditioned (the point barely
                # moves over 1e-3 in t), as in the constructed cases
                if abs(X.spec_tangent(x, ra)) < 1e-2 * gen.spec_size([x]) or abs(X.spec_tangent(y, rb)) < 1e-2 * gen.spec_size([y]):
                    ctx.discard('(near-)cusp at the crossing')
                expected.append((i, j, ra, rb))
            for c in cr:
                for d in cr:
                    if c is not d and (abs(c[0] - d[0]) < 0.03 or abs(c[1] - d[1]) < 0.03):
                        ctx.discard('crossings too close together')
            # crossings that graze an end point without being found above
            ends = X.spec_eval(x, np.array([0.0, 1.0]))
            for e in ends:
                dd = np.abs(X.spec_eval(y, np.linspace(0, 1, 1201)) - e).min()
                if dd < 5e-3 * gen.spec_size([x, y]):
                    ctx.discard('segment end close to the other curve')
            ends = X.spec_eval(y, np.array([0.0, 1.0]))
            for e in ends:
                dd = np.abs(X.spec_eval(x, np.linspace(0, 1, 1201)) - e).min()
                if dd < 5e-3 * gen.spec_size([x, y]):
                    ctx.discard('segment end close to the other curve')
    if not expected:
        ctx.discard('no crossing')
    # coincident crossing points (e.g. a path that retraces a segment) are not in general position: Path.intersect
    # deliberately merges results at one point
    locs = [X.spec_eval(P1[i], np.array([a]))[0] for (i, j, a, b) in expected]
    allsize = gen.spec_size(P1 + P2)
    for x in range(len(locs)):
        for y in range(x + 1, len(locs)):
            if abs(locs[x] - locs[y]) < 1e-3 * allsize:
                ctx.discard('two crossings at (nearly) the same point')
    p1 = ctx.lib('build', gen.build_path, P1)
    p2 = ctx.lib('build', gen.build_path, P2)
    if p1 == p2:
        ctx.discard('identical paths')
    ctx.count('c:kept')
    ctx.count('c:crossings', len(expected))
    ctx.nontrivial()
    res = ctx.lib('Path.intersect', p1.intersect, p2)
    found = []
    for (T1, seg1, t1), (T2, seg2, t2) in res:
        i = [k for k, s in enumerate(p1) if s is seg1]
        j = [k for k, s in enumerate(p2) if s is seg2]
        if i and j:
            found.append((i[0], j[0], float(t1), float(t2)))
    for (i, j, a, b) in expected:
        hits = [f for f in found if f[0] == i and f[1] == j and abs(f[2] - a) <= 1e-4 and abs(f[3] - b) <= 1e-4]
        if len(hits) != 1:
            ctx.fail('c/%s' % ('lost' if not hits else 'duplicated'),
                     'crossing of path1[%d] and path2[%d] at about (%.4f, %.4f) is reported %d times by Path.intersect: %r'
                     % (i, j, a, b, len(hits), found))
