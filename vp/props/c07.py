"""C07 -- ilength inverts length on [0, L], is monotone, total and terminates."""
import math
import warnings

from hypothesis import strategies as st

from vp import gen

ID = 'C07'
RULE = ("curves: each segment type and paths of 2-4 mixed segments at scales 1e-3..1e6; s from {0, L, uniform*L, L*2^-k, "
        "nextafter(L,0), tiny}; for paths additionally every cumulative segment length and its +-1 ulp neighbours; "
        "out-of-range s {-tiny, -L, nextafter(L,inf), 2L}. Oracle (inverse relation): 0<=t<=1, |length(0,t)-s| <= "
        "max(1e-12, 1e-9*L), ilength(0)=0, ilength(L)=1, monotone for s-values further apart than the tolerance, "
        "ValueError outside [0,L]; the only time-free observable of non-termination is the library's own iteration-cap "
        "exception. Non-trivial = curve is not a single Line and 0<s<L; distinct by (curve, s, config).")
ASSUMPTIONS = ["'floating-point resolution of L' is read as 1e-9*L (length itself is reproducible only to quadrature accuracy); 1e-4*L for curves whose speed (nearly) vanishes somewhere, where length(0,t) is itself discontinuous at that level",
               "the no-scipy configuration is run on few cases at scales <= 1e2 in the quick tier (about a second per call)"]
RULE += ' Also: Half of the cases request an explicit tolerance (1e-3..1e-9 of L); paths are also built through edits after queries and may repeat a segment.'   # added after the seeded-change rounds (DESIGN.md section 10)
CONFIGS = ['scipy', 'noscipy']
BUDGET = {'quick': {'scipy': 800, 'noscipy': 32}, 'thorough': {'scipy': 20000, 'noscipy': 1200}}
REQUIRED = ['curve:Q', 'curve:C', 'curve:A', 'curve:path', 's:boundary', 's:outside', 's:interior', 'scale>=1e5', 'requested_s_tol', 'path_edited_after_queries', 'path_with_equal_segments']
CASE_TIMEOUT = 200
TIME_LIMIT = {'quick': 280, 'thorough': 2400}

EPS = 2.0 ** -52


def strategy(tier, config):
    if config == 'noscipy':
        sc = st.sampled_from([1e-3, 1.0, 1.0] + ([1e2, 1e4, 1e6] if tier == 'thorough' else []))
        kinds = ['Q', 'C', 'A', 'L', 'path']
    else:
        sc = gen.scales
        kinds = ['Q', 'C', 'C', 'A', 'A', 'L', 'path', 'path']

    @st.composite
    def s(draw):
        kind = draw(st.sampled_from(kinds))
        scale = draw(sc)
        if kind == 'path':
            specs = draw(gen.chain_specs(min_size=2, max_size=4 if config == 'scipy' else 3, scale=scale, unequal=draw(st.booleans()),
                                         break_prob=draw(st.sampled_from([0, 20]))))
        elif kind == 'A':
            specs = [draw(gen.arc_center_form(scale_strategy=st.just(scale), max_ecc=30))['spec']]
        else:
            specs = [draw(gen.bezier_spec(deg_strategy=st.just({'L': 1, 'Q': 2, 'C': 3}[kind]), scale_strategy=st.just(scale)))['spec']]
        ns = 4 if config == 'scipy' else 1
        fr = draw(st.lists(st.one_of(gen.floats_in(0.0, 1.0), st.sampled_from([0.5, 0.25, 2.0 ** -10, 2.0 ** -30, 1 - 2.0 ** -20])),
                           min_size=ns, max_size=ns))
        bsel = draw(st.lists(st.tuples(st.integers(0, 3), st.integers(-1, 1)), min_size=1, max_size=2))
        if kind == 'path' and draw(st.integers(0, 4)) == 0:
            # a retraced stroke: a segment equal to an earlier one appears again later in the path
            j = draw(st.integers(0, len(specs) - 1))
            specs = specs + [[specs[j][0]] + [list(p) if isinstance(p, (list, tuple)) else p for p in specs[j][1:]]]
        return {'kind': kind, 'scale': scale, 'segs': specs, 'fr': fr, 'bsel': [list(b) for b in bsel],
                'stol': draw(st.sampled_from([None, None, None, 1e-3, 1e-6, 1e-9])), 'via': draw(st.integers(0, 7))}
    return s()


def _build_path_via(case, ctx, specs):
    """the Path under test is built directly or reaches its final segments through edits made after its lengths were queried"""
    from svgpathtools import Path, Line
    via = case.get('via', 0)
    segs = [gen.build_seg(sp) for sp in specs]
    if via < 4 or len(segs) < 2:
        return ctx.lib('build', Path, *segs)
    ctx.count('path_edited_after_queries')
    other = Line(segs[-1].start, segs[-1].start + complex(1, 2) * case['scale'])
    if via == 4:
        p = Path(*segs[:-1])
        ctx.lib('warm', p.length)
        p.append(segs[-1])
    elif via == 5:
        p = Path(*(segs[:-1] + [other]))
        ctx.lib('warm', p.ilength, ctx.lib('warm', p.length) / 3)
        p[-1] = segs[-1]
    elif via == 6:
        p = Path(*(segs + [other]))
        ctx.lib('warm', p.length)
        del p[-1]
    else:
        p = Path(*segs[1:])
        ctx.lib('warm', p.point, 0.5)
        p.insert(0, segs[0])
    return p


def check(case, ctx):
    from svgpathtools import Path
    specs = case['segs']
    kind = case['kind']
    if kind == 'path':
        curve = _build_path_via(case, ctx, specs)
        if any(a == b for i, a in enumerate(curve) for b in curve[i + 1:]):
            ctx.count('path_with_equal_segments')
    else:
        curve = ctx.lib('build', gen.build_seg, specs[0])
    ctx.count('curve:' + kind)
    if case['scale'] >= 1e5:
        ctx.count('scale>=1e5')
    with warnings.catch_warnings():
        warnings.simplefilter('ignore')
        L = ctx.lib('length', curve.length)
        try:
            L = float(L)
        except Exception:
            ctx.fail('length_not_a_number', 'length() of %s returned %r, so no s can be inverted' % (kind, L))
        if not (math.isfinite(L) and L > 0):
            ctx.discard('length not positive/finite (C06)')
        tol = max(1e-12, 1e-9 * L)
        kw = {}
        if case.get('stol'):
            # an explicitly requested tolerance (relative to L here) is what the result has to meet
            kw = {'s_tol': case['stol'] * L}
            tol = max(tol, case['stol'] * L)
            ctx.count('requested_s_tol')
        # length() itself is only piecewise consistent where the speed (nearly) vanishes: numerical integration of |B'| across
        # a (near-)cusp is accurate to ~1e-5 (C06 allows 5e-3 there, and records KF03), and length(0, t) then jumps by that
        # much as t crosses the cusp, so no parameter can invert it more finely
        from vp.props import c06
        from svgpathtools import Arc
        for sg in (curve if kind == 'path' else [curve]):
            if isinstance(sg, Arc) and max(sg.radius.real, sg.radius.imag) >= 100 * min(sg.radius.real, sg.radius.imag):
                # the speed along a very eccentric arc varies by the eccentricity: the same (near-)singular class
                tol = max(tol, 1e-4 * L)
                ctx.count('curve_with_near_singular_speed')
        for sp in specs:
            if sp[0] in 'QC':
                cp = [gen.C(p) for p in sp[1:]]
                vmin, tmin, vmax = c06.bez_speed_min(cp, 0.0, 1.0)
                if vmax > 0 and vmin <= 1e-2 * vmax:
                    tol = max(tol, 1e-4 * L)
                    ctx.count('curve_with_near_singular_speed')
                    break
        # -- s values --------------------------------------------------------------------------------
        svals = [(0.0, 'end'), (L, 'end')]
        for f in case['fr']:
            svals.append((f * L, 'interior'))
        svals.append((math.nextafter(L, 0.0), 'near_L'))
        if kind == 'path':
            lens = [float(seg.length()) for seg in curve]
            cum = [0.0]
            for l in lens:
                cum.append(cum[-1] + l)
            for idx, off in case['bsel']:
                k = 1 + idx % (len(lens) - 1) if len(lens) > 1 else 1
                v = gen.nextafter_k(cum[k], off)
                if 0 <= v <= L:
                    svals.append((v, 'boundary'))
                    ctx.count('s:boundary')
        else:
            ctx.count('s:boundary', 0)
        results = []
        for s, cls in svals:
            if not (0 <= s <= L):
                continue
            if cls == 'interior' and 0 < s < L:
                ctx.count('s:interior')
                if not (kind == 'L'):
                    ctx.nontrivial(key=[specs, s])
            t = ctx.lib('ilength/%s/%s' % (kind, cls), curve.ilength, s, **kw)
            try:
                t = float(t)
            except Exception:
                ctx.fail('not_a_number', 'ilength(%r) returned %r' % (s, t))
            ctx.check(0.0 <= t <= 1.0, 'out_of_range/%s' % kind, 'ilength(%r)=%r outside [0,1] (L=%r)' % (s, t, L))
            if s == 0.0:
                ctx.check(t == 0.0, 'ilength(0)', 'ilength(0)=%r' % t)
            elif s == L:
                ctx.check(t == 1.0, 'ilength(L)', 'ilength(L)=%r (L=%r)' % (t, L))
            if kind == 'path':
                back = float(ctx.lib('length(0,t)', curve.length, 0, t)) if 0 < t < 1 else (0.0 if t == 0 else L)
            else:
                back = float(ctx.lib('length(0,t)', curve.length, 0, t))
            ctx.check(abs(back - s) <= tol, 'not_inverse/%s/%s' % (kind, cls),
                      'ilength(%r)=%r but length(0,t)=%r (|diff|=%.3g, tol %.3g, L=%r)' % (s, t, back, abs(back - s), tol, L))
            results.append((s, t))
        results.sort()
        for (s1, t1), (s2, t2) in zip(results, results[1:]):
            if s2 - s1 > 2 * tol:
                ctx.check(t1 <= t2, 'not_monotone/%s' % kind, 'ilength(%r)=%r > ilength(%r)=%r' % (s1, t1, s2, t2))
        # -- outside [0, L] -----------------------------------------------------------------------
        for s in (-5e-324, -L, math.nextafter(L, math.inf), 2 * L, -1e-9 * L):
            ctx.count('s:outside')
            try:
                t = curve.ilength(s)
            except ValueError:
                continue
            except Exception as e:
                ctx.fail('outside/raises_%s' % type(e).__name__, 'ilength(%r) with L=%r raised %s: %s' % (s, L, type(e).__name__, str(e)[:100]))
            ctx.fail('outside/returns', 'ilength(%r) returned %r although s is outside [0, L=%r]' % (s, t, L))
