"""C09 -- reversed/split/cropped trace the same curve under the documented parameter map."""
import math

from hypothesis import strategies as st

from vp import gen
from vp.ref import arc_ref

ID = 'C09'
RULE = ("segments of every class (incl. cubics with loops/cusps, arcs with sub-spans around 180 deg), 0<=t0<t1<=1 from {0, 1, "
        "dyadics, uniform, nearly equal}, split points in (0,1); paths of 2-6 segments incl. closed ones, paths that contain "
        "the same segment more than once (retraced edges), T0/T1 at joints, T1<T0 wrap-around on closed paths. Oracle: the "
        "statement itself, evaluated at a 9-point grid plus generated u; path crops compared through start/end points, joints "
        "and length. Non-trivial = interior crop (0<t0, t1<1) or a path crop spanning >= 2 segments; distinct by case hash.")
ASSUMPTIONS = ["Bezier reversed/split: rounding bound; interior Bezier crops (t1 relocated by root finding) 1e-8*size; arcs 1e-7*size "
               "(2e-4*size in the exactly-fitting / half-ellipse window, see C04)",
               "path crop length compared to length(T0,T1) to 1e-6 relative (C06 owns length)"]
RULE += ' Also: Segments under test are also products of reversed() or of an end crop; a no-scipy configuration covers the length clauses on small Bezier paths.'   # added after the seeded-change rounds (DESIGN.md section 10)
CONFIGS = ['scipy', 'noscipy']
BUDGET = {'quick': {'scipy': 20000, 'noscipy': 240}, 'thorough': {'scipy': 300000, 'noscipy': 8000}}
REQUIRED = ['reversed_of_cropped_piece', 'segment_obtained_from_reversed', 'seg:L', 'seg:Q', 'seg:C', 'seg:A', 'path', 'path:wraparound', 'path:repeated_segment', 'path:joint_T', 'interior_crop']
TIME_LIMIT = {'quick': 250, 'thorough': 3300}

EPS = 2.0 ** -52
UGRID = [0.0, 0.125, 0.25, 0.375, 0.5, 0.625, 0.75, 0.875, 1.0]

tpar = st.one_of(st.sampled_from([0.0, 1.0, 0.5, 0.25, 0.75, 0.125, 0.875]), gen.floats_in(0.0, 1.0), gen.floats_in(0.0, 1.0))


def strategy(tier, config):
    @st.composite
    def s(draw):
        what = draw(st.sampled_from(['seg', 'seg', 'seg', 'path', 'path']))
        if config == 'noscipy':
            # without scipy only the length clauses differ (pure-Python fallback, slow at large scales): small paths of lines and
            # Beziers, gently bent ones included, at unit scale
            closed = draw(st.booleans())
            specs = draw(gen.chain_specs(min_size=2, max_size=4, closed=closed, arcs=False, scale=draw(st.sampled_from([1e-2, 1.0, 1.0])),
                                         classes=draw(st.sampled_from([None, ['nearlinear', 'generic'], ['nearlinear']]))))
            T0, T1 = draw(tpar), draw(tpar)
            jsel = draw(st.lists(st.integers(0, 12), min_size=2, max_size=2))
            return {'what': 'path', 'segs': specs, 'T0': T0, 'T1': T1, 'jsel': jsel, 'use_joint': draw(st.sampled_from([0, 0, 1, 2, 3]))}
        if what == 'seg':
            if draw(st.integers(0, 3)) == 0:
                a = draw(gen.arc_center_form(max_ecc=50))
                spec, tag = a['spec'], 'arc'
            else:
                b = draw(gen.bezier_spec())
                spec, tag = b['spec'], b['tag']
            a_, b_ = draw(tpar), draw(tpar)
            if draw(st.integers(0, 9)) == 0:
                b_ = min(1.0, a_ + draw(st.sampled_from([1e-9, 1e-6, 1e-3])))
            t0, t1 = min(a_, b_), max(a_, b_)
            ts = draw(gen.floats_in(0.01, 0.99))
            us = draw(st.lists(gen.floats_in(0.0, 1.0), min_size=1, max_size=2))
            return {'what': 'seg', 'spec': spec, 'tag': tag, 't0': t0, 't1': t1, 'ts': ts, 'us': us,
                    'via': draw(st.sampled_from(['direct', 'direct', 'from_reversed', 'from_crop']))}
        closed = draw(st.booleans())
        specs = draw(gen.chain_specs(min_size=2, max_size=5, closed=closed, unequal=draw(st.booleans()),
                                     scale=draw(st.sampled_from([1e-2, 1.0, 1.0, 1e2, 1e4]))))
        rep = draw(st.integers(0, 3)) == 0
        if rep:
            # retrace: go out along the first k segments and come back reversed, then go out again
            k = draw(st.integers(1, min(2, len(specs))))
            out = [list(map(lambda v: v, s)) for s in specs[:k]]
            back = [_rev_spec(s) for s in reversed(out)]
            specs = out + back + [list(s) for s in specs]
        T0, T1 = draw(tpar), draw(tpar)
        jsel = draw(st.lists(st.integers(0, 12), min_size=2, max_size=2))
        use_joint = draw(st.sampled_from([0, 0, 1, 2, 3]))
        return {'what': 'path', 'segs': specs, 'T0': T0, 'T1': T1, 'jsel': jsel, 'use_joint': use_joint}
    return s()


def _rev_spec(sp):
    if sp[0] == 'A':
        return ['A', sp[6], sp[2], sp[3], sp[4], 1 - sp[5], sp[1]]
    return [sp[0]] + list(reversed(sp[1:]))


def _arc_info(spec):
    L = arc_ref.lam(spec[1], spec[2][0], spec[2][1], spec[3], spec[6])
    return L


def seg_tols(spec, seg):
    """(rounding tol, crop tol) for a segment"""
    size = gen.spec_size([spec])
    pos = max(abs(gen.C(p)) for p in gen.spec_points(spec)) + size
    if spec[0] == 'A':
        L = _arc_info(spec)
        degenerate = L > 1 or abs(1.0 / L - 1.0) < 1e-6
        ecc = max(seg.radius.real, seg.radius.imag) / min(seg.radius.real, seg.radius.imag)
        t = (2e-4 if degenerate else 1e-7) * size * max(1.0, ecc) + 1024 * EPS * pos
        return t, t, size
    return 256 * EPS * pos, 1e-8 * size + 256 * EPS * pos, size


def check(case, ctx):
    if case['what'] == 'seg':
        return check_seg(case, ctx)
    return check_path(case, ctx)


def check_seg(case, ctx):
    spec = case['spec']
    kind = spec[0]
    if kind == 'A':
        L = _arc_info(spec)
        if not (1e-10 < L < 1e10):
            ctx.discard('arc chord/radius ratio extreme')
    seg = ctx.lib('build', gen.build_seg, spec)
    ctx.count('seg:' + kind)
    ctx.count('class:' + case['tag'])
    rt, ct, size = seg_tols(spec, seg)
    us = UGRID + case['us']
    ref = seg
    pt = lambda u: complex(ref.point(u))
    via = case.get('via', 'direct')
    if via == 'from_reversed':
        # the segment under test is itself the product of reversed() (of the mirror-image segment): it is the same curve,
        # and everything below must hold for it as for a freshly constructed one
        seg = ctx.lib('reversed/' + kind, ctx.lib('build', gen.build_seg, _rev_spec(spec)).reversed)
        ctx.count('segment_obtained_from_reversed')
        rt, ct = 2 * rt, 2 * ct
    elif via == 'from_crop' and kind != 'A':
        # ... or the product of an end crop of a longer curve (exact for Beziers: de Casteljau)
        seg = ctx.lib('cropped/' + kind, seg.cropped, 0.0, 1.0)
        ctx.count('segment_obtained_from_crop')
    # reversed ------------------------------------------------------------------------
    r = ctx.lib('reversed/' + kind, seg.reversed)
    ctx.check(type(r) is type(seg), 'reversed/type', 'reversed() returned %s' % type(r).__name__)
    for u in us:
        ctx.check(abs(complex(r.point(u)) - pt(1 - u)) <= rt, 'reversed/%s' % kind,
                  'reversed().point(%r)=%r but point(1-u)=%r' % (u, r.point(u), pt(1 - u)))
    # split ----------------------------------------------------------------------------------
    t = case['ts']
    a, b = ctx.lib('split/' + kind, seg.split, t)
    ctx.check(complex(a.end) == complex(b.start), 'split/pieces_meet/%s' % kind, 'split(%r): %r != %r' % (t, a.end, b.start))
    st_tol = rt if kind != 'A' else ct
    half_span = kind == 'A' and (abs(abs(seg.delta * t) - 180) < 0.02 or abs(abs(seg.delta * (1 - t)) - 180) < 0.02)
    if half_span:
        st_tol = max(st_tol, 2e-4 * size)
    ctx.check(abs(complex(a.end) - pt(t)) <= st_tol and abs(complex(a.start) - pt(0)) <= st_tol and abs(complex(b.end) - pt(1)) <= st_tol,
              'split/endpoints/%s' % kind, 'split(%r) pieces do not start/meet/end at point(0)/point(t)/point(1)' % t)
    for u in us:
        ctx.check(abs(complex(a.point(u)) - pt(u * t)) <= st_tol * 4, 'split/first/%s' % kind,
                  'split(%r)[0].point(%r)=%r but point(u*t)=%r' % (t, u, a.point(u), pt(u * t)))
        ctx.check(abs(complex(b.point(u)) - pt(t + u * (1 - t))) <= st_tol * 4, 'split/second/%s' % kind,
                  'split(%r)[1].point(%r)=%r but point(t+u(1-t))=%r' % (t, u, b.point(u), pt(t + u * (1 - t))))
    # cropped -------------------------------------------------------------------------------
    t0, t1 = case['t0'], case['t1']
    if kind == 'A' and t0 < t1 and abs(seg.delta) * (t1 - t0) < 1e-2:
        # sub-arc whose chord is < ~1e-4 of the radius: re-deriving an Arc from two nearly coincident points is
        # C04's recorded finding KF01 (and its milder precursor), not a property of cropped()
        ctx.count('arc_crop_span_below_0.01deg_skipped')
        t1 = t0
    if t0 < t1:
        interior = 0 < t0 and t1 < 1
        if interior:
            ctx.count('interior_crop')
            ctx.nontrivial()
        c = ctx.lib('cropped/%s%s' % (kind, '/interior' if interior else ''), seg.cropped, t0, t1)
        ctx.check(type(c) is type(seg), 'cropped/type', 'cropped() returned %s' % type(c).__name__)
        tol = ct if (interior or kind == 'A') else rt * 4
        if kind == 'A' and abs(abs(seg.delta * (t1 - t0)) - 180) < 0.02:
            tol = max(tol, 2e-4 * size)
        # a crop whose end is relocated by a closest-point search: conditioning ~ 1/|t1-t0| for tiny spans is fine,
        # but the search is on the curve trimmed to [t0,1]: scale the tolerance by 1/(1-t0)
        if interior and kind != 'A':
            tol = tol / max(1 - t0, 1e-6)
        # the piece is a segment in its own right: its reversed copy traces it backwards (operations applied to results of operations)
        cr = ctx.lib('reversed/' + kind, c.reversed)
        ctx.count('reversed_of_cropped_piece')
        for u in us:
            want = pt(t0 + (1 - u) * (t1 - t0))
            ctx.check(abs(complex(cr.point(u)) - want) <= tol * 2, 'cropped_then_reversed/%s' % kind,
                      'cropped(%r,%r).reversed().point(%r)=%r but the original curve is at %r there' % (t0, t1, u, cr.point(u), want))
        for u in us:
            want = pt(t0 + u * (t1 - t0))
            ctx.check(abs(complex(c.point(u)) - want) <= tol, 'cropped/%s%s/%s' % (kind, '/interior' if interior else '', case['tag'] if kind == 'C' else '-'),
                      'cropped(%r,%r).point(%r)=%r but point(t0+u(t1-t0))=%r (|diff|=%.3g tol %.3g)' % (t0, t1, u, c.point(u), want, abs(complex(c.point(u)) - want), tol))


def check_path(case, ctx):
    specs = case['segs']
    for sp in specs:
        if sp[0] == 'A':
            L = _arc_info(sp)
            if not (1e-10 < L < 1e10):
                ctx.discard('arc chord/radius ratio extreme')
    path = ctx.lib('build', gen.build_path, specs)
    n = len(path)
    ctx.count('path')
    size = gen.spec_size(specs)
    pos = max(abs(gen.C(p)) for s in specs for p in gen.spec_points(s)) + size
    has_arc = any(s[0] == 'A' for s in specs)
    ptol = (2e-4 * size) if has_arc else (1e-8 * size + 1024 * EPS * pos)
    Ltot = float(ctx.lib('length', path.length))
    if not (Ltot > 0 and math.isfinite(Ltot)):
        ctx.discard('degenerate path length')
    repeated = any(path[i] == path[j] for i in range(n) for j in range(i + 1, n))
    if repeated:
        ctx.count('path:repeated_segment')
    # reversed -----------------------------------------------------------------------------------
    r = ctx.lib('Path.reversed', path.reversed)
    ctx.check(len(r) == n, 'path/reversed/len', 'reversed() has %d segments, original %d' % (len(r), n))
    for i in range(n):
        a, b = r[i], path[n - 1 - i]
        ctx.check(type(a) is type(b) and abs(complex(a.start) - complex(b.end)) <= 256 * EPS * pos and abs(complex(a.end) - complex(b.start)) <= 256 * EPS * pos,
                  'path/reversed/mirror', 'reversed()[%d]=%r is not the mirror of %r' % (i, a, b))
        for u in (0.25, 0.5):
            ctx.check(abs(complex(a.point(u)) - complex(b.point(1 - u))) <= ptol, 'path/reversed/points', 'reversed()[%d].point(%r) != original.point(1-u)' % (i, u))
    # same points in opposite order, as a function of the path parameter too (the source path's caches are warm here)
    if all(float(sg.length()) > 0 for sg in path):
        for T in (0.1, 0.35, 0.5, 0.8):
            a = complex(ctx.lib('reversed.point', r.point, T))
            b = complex(path.point(1 - T))
            ctx.check(abs(a - b) <= ptol + 1e-7 * Ltot, 'path/reversed/point_T', 'reversed().point(%r)=%r but point(1-T)=%r' % (T, a, b))
    lr = float(ctx.lib('reversed.length', r.length))
    # (absolute floor: the library asks quad for an absolute error of 1e-12 per segment)
    ctx.check(abs(lr - Ltot) <= 1e-9 * Ltot + 1e-11 * n + (2e-6 * Ltot if has_arc else 0), 'path/reversed/length', 'reversed().length()=%r, original %r' % (lr, Ltot))
    # cropped ---------------------------------------------------------------------------------------
    closed = gen.path_is_closed(specs)
    T0, T1 = case['T0'], case['T1']
    fr = [float(s.length()) / Ltot for s in path]
    cum = [0.0]
    for f in fr:
        cum.append(cum[-1] + f)
    uj = case['use_joint']
    if uj & 1:
        T0 = min(1.0, cum[case['jsel'][0] % (n + 1)])
        ctx.count('path:joint_T')
    if uj & 2:
        T1 = min(1.0, cum[case['jsel'][1] % (n + 1)])
        ctx.count('path:joint_T')
    if T0 == T1 or (T0 == 1.0 and T1 == 0.0):
        ctx.discard('T0 == T1')
    # Path.cropped snaps segment parameters within np.isclose (1e-8) of a joint onto the joint; crops shorter than
    # that resolution, or ending closer than that to the path's own start/end without being exactly 0/1, are below
    # what the implementation resolves and are not generated
    if not case.get('kf04_witness') and (abs(T1 - T0) < 1e-4 or any(0 < T < 1e-4 or 1 - 1e-4 < T < 1 for T in (T0, T1))):
        ctx.discard('crop below the joint-snapping resolution (excluded: recorded finding KF04)')
    # crop ends that fall within the snapping range of a joint are moved onto the joint (by up to 1e-5 of a segment)
    snapped = False
    for T in (T0, T1):
        if 0 < T < 1:
            k_, t_ = path.T2t(T)
            if t_ < 2e-8 or t_ > 1 - 2e-5:
                snapped = True
    # a crop end that falls inside an Arc segment so close to one of its ends that the cropped piece spans < 0.01 degrees
    # re-derives an Arc from two nearly coincident points: C04's finding KF01 (a full turn instead of a sliver), not cropped()'s
    from svgpathtools import Arc as _Arc
    for T in (T0, T1):
        if 0 < T < 1:
            k_, t_ = path.T2t(T)
            sg = path[k_]
            if isinstance(sg, _Arc) and 1e-8 < min(t_, 1 - t_) and abs(sg.delta) * min(t_, 1 - t_) < 1e-2:
                ctx.discard('arc piece of a path crop spans < 0.01 degrees (excluded: C04 finding KF01)')
    if snapped:
        ctx.count('path:crop_end_snapped_to_joint')
        ptol = max(ptol, 4e-5 * max(float(s.length()) for s in path))
    wrap = T1 < T0
    if wrap and not closed:
        T0, T1 = T1, T0
        wrap = False
    if wrap:
        ctx.count('path:wraparound')
    if any(f == 0 for f in fr):
        ctx.discard('zero-length segment in crop test')
    c = ctx.lib('Path.cropped%s%s' % ('/wrap' if wrap else '', '/repeated' if repeated else ''), path.cropped, T0, T1)
    ctx.check(len(c) >= 1, 'path/cropped/empty', 'cropped(%r,%r) is empty' % (T0, T1))
    p0, p1 = complex(path.point(T0)), complex(path.point(T1))
    tag = '%s%s' % ('wrap' if wrap else 'plain', '/repeated' if repeated else '')
    ctx.check(abs(complex(c[0].start) - p0) <= ptol, 'path/cropped/start/' + tag, 'cropped(%r,%r) starts at %r, point(T0)=%r' % (T0, T1, c[0].start, p0))
    ctx.check(abs(complex(c[-1].end) - p1) <= ptol, 'path/cropped/end/' + tag, 'cropped(%r,%r) ends at %r, point(T1)=%r' % (T0, T1, c[-1].end, p1))
    for a, b in zip(c, list(c)[1:]):
        ctx.check(abs(complex(a.end) - complex(b.start)) <= ptol, 'path/cropped/joined/' + tag,
                  'cropped(%r,%r): consecutive pieces %r and %r are not joined' % (T0, T1, a, b))
    if wrap:
        want = Ltot - float(ctx.lib('length(T1,T0)', path.length, T1, T0))
    else:
        want = float(ctx.lib('length(T0,T1)', path.length, T0, T1))
    got = float(ctx.lib('cropped.length', c.length))
    spans = sum(1 for k in range(n) if (cum[k] < max(T0, T1) and cum[k + 1] > min(T0, T1))) if not wrap else n
    if spans >= 2 or wrap:
        ctx.nontrivial()
    # where the speed of a Bezier segment (nearly) vanishes, length() itself is only accurate to C06's 5e-3 (numerical
    # integration across the kink, pure-Python fallback above all): the two lengths are then compared to that accuracy
    ltol = 1e-6 * Ltot
    from vp.props import c06
    for sp in specs:
        if sp[0] in 'QC':
            vmin, _tm, vmax = c06.bez_speed_min([gen.C(p) for p in sp[1:]], 0.0, 1.0)
            if vmax > 0 and vmin <= 1e-2 * vmax:
                ltol = 5e-3 * Ltot
                ctx.count('path_with_near_singular_speed')
                break
    ctx.check(abs(got - want) <= ltol + 4 * ptol, 'path/cropped/length/' + tag,
              'cropped(%r,%r).length()=%r but the path length between them is %r (total %r)' % (T0, T1, got, want, Ltot))
