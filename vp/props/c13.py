"""C13 -- radialrange/closest/farthest point return the global extremes of distance."""
import math

import numpy as np
from hypothesis import strategies as st

from vp import gen
from vp.ref import xgeom as X

ID = 'C13'
RULE = ("Line/Quadratic/Cubic segments of every class and paths of 2-5 of them at scales 1e-3..1e6; query points: far (100x "
        "size), near (1e-3 x size off the curve along the normal), on the curve, at a centre of curvature B(t)+n/kappa "
        "(clustered critical points), beyond either end along the end tangent, at a control/end point, random. Oracle: "
        "reference extremes from a 4001-point sample refined by golden-section search around the best samples; t in [0,1], d "
        "attained at t, no sampled/refined point closer than dmin or farther than dmax (1e-7 of the size). Non-trivial = the "
        "extreme is attained strictly inside (0,1) of a curved segment; distinct by case hash.")
ASSUMPTIONS = ["point() is the reference curve (C03)", "tolerance 1e-7*size + 1e-9*d (the critical points come from np.roots)"]
RULE += ' Also: Segments that are reversed copies of queried ones or were reassigned after queries; exact 2^-10 / 2^-20 copies; loop segments in paths.'   # added after the seeded-change rounds (DESIGN.md section 10)
CONFIGS = ['scipy']
BUDGET = {'quick': 16000, 'thorough': 300000}
REQUIRED = ['path_with_loop_segment', 'size_below_1e-4', 'reversed_after_queries', 'reassigned_after_queries', 'q:far', 'q:near', 'q:on', 'q:curvature_centre', 'q:beyond_end', 'q:random', 'kind:L', 'kind:Q', 'kind:C', 'path', 'interior_min',
            'interior_max']

EPS = 2.0 ** -52
TS = np.linspace(0.0, 1.0, 4001)


def strategy(tier, config):
    @st.composite
    def s(draw):
        if draw(st.integers(0, 3)) == 0:
            specs = draw(gen.chain_specs(min_size=2, max_size=5, arcs=False, unequal=draw(st.booleans()),
                                         break_prob=draw(st.sampled_from([0, 20]))))
            what = 'path'
            if draw(st.integers(0, 3)) == 0:
                # one segment is replaced by a loop: a curve that returns to its own start point
                i = draw(st.integers(0, len(specs) - 1))
                b = draw(gen.bezier_spec(deg_strategy=st.sampled_from([2, 3]), classes=['generic'], scale_strategy=st.just(gen.spec_size(specs) or 1.0)))['spec']
                dz = [specs[i][1][0] - b[1][0], specs[i][1][1] - b[1][1]]
                b = [b[0]] + [[p[0] + dz[0], p[1] + dz[1]] for p in b[1:]]
                b[-1] = list(b[1])
                specs = specs[:i] + [b] + specs[i:]
        else:
            specs = [draw(gen.bezier_spec())['spec']]
            what = 'seg'
        # the same shapes at 1e-3 and 1e-6 of their size (exact scaling by a power of two): nothing in the claim depends on the unit
        k2 = draw(st.sampled_from([0, 0, 0, 0, 10, 20]))
        if k2:
            specs = [[sp[0]] + [[p[0] * 2.0 ** -k2, p[1] * 2.0 ** -k2] for p in sp[1:]] for sp in specs]
        q = draw(st.sampled_from(['far', 'near', 'on', 'curvature_centre', 'beyond_end', 'control_point', 'random']))
        return {'what': what, 'segs': specs, 'q': q, 'k': draw(st.integers(0, 7)), 't': draw(gen.floats_in(0.02, 0.98)),
                'a': draw(gen.floats_in(-1.0, 1.0)), 'b': draw(gen.floats_in(-1.0, 1.0)), 'end': draw(st.integers(0, 1))}
    return s()


def query_point(case, specs, size):
    spec = specs[case['k'] % len(specs)]
    t = case['t']
    p = X.spec_eval(spec, np.array([t]))[0]
    d1 = X.spec_tangent(spec, t)
    q = case['q']
    if q == 'far':
        return p + 100 * size * complex(case['a'], case['b'] or 0.5)
    if q == 'random':
        return p + size * complex(case['a'], case['b'])
    if q == 'on':
        return p
    n = -1j * d1 / abs(d1) if abs(d1) > 0 else 1j
    if q == 'near':
        return p + n * 1e-3 * size * (1 if case['a'] >= 0 else -1)
    if q == 'curvature_centre':
        h = 1e-4
        d2 = (X.spec_tangent(spec, min(1, t + h)) - X.spec_tangent(spec, max(0, t - h))) / (min(1, t + h) - max(0, t - h))
        cr = d1.real * d2.imag - d1.imag * d2.real
        if cr == 0 or abs(d1) == 0:
            return p + n * size * case['a']
        kappa = cr / abs(d1) ** 3
        return p + (1j * d1 / abs(d1)) / kappa
    if q == 'beyond_end':
        e = case['end']
        pe = X.spec_eval(spec, np.array([float(e)]))[0]
        te = X.spec_tangent(spec, float(e))
        if abs(te) == 0:
            te = complex(size, 0)
        return pe + (1 if e else -1) * te / abs(te) * size * (0.1 + abs(case['a']))
    # control_point
    pts = [X.C(z) for z in spec[1:]]
    return pts[case['end'] * (len(pts) - 1)] if case['a'] > 0 else pts[len(pts) // 2]


def ref_extremes(spec, z):
    pts = X.spec_eval(spec, TS)
    d = np.abs(pts - z)

    def refine(i, sign):
        lo, hi = TS[max(0, i - 1)], TS[min(len(TS) - 1, i + 1)]
        f = lambda t: sign * abs(X.spec_eval(spec, np.array([t]))[0] - z)
        g = (math.sqrt(5) - 1) / 2
        a, b = lo, hi
        c, dd = b - g * (b - a), a + g * (b - a)
        fc, fd = f(c), f(dd)
        for _ in range(60):
            if fc < fd:
                b, dd, fd = dd, c, fc
                c = b - g * (b - a)
                fc = f(c)
            else:
                a, c, fc = c, dd, fd
                dd = a + g * (b - a)
                fd = f(dd)
        t = (a + b) / 2
        return abs(X.spec_eval(spec, np.array([t]))[0] - z), t
    imin = int(np.argmin(d))
    imax = int(np.argmax(d))
    dmin, tmin = min((float(d[imin]), float(TS[imin])), refine(imin, 1))
    r = refine(imax, -1)
    dmax, tmax = max((float(d[imax]), float(TS[imax])), r)
    return (dmin, tmin), (dmax, tmax)


def check(case, ctx):
    from svgpathtools import closest_point_in_path, farthest_point_in_path
    specs = case['segs']
    for sp in specs:
        if len({tuple(p) for p in sp[1:]}) < 2:
            ctx.discard('degenerate segment')
    size = gen.spec_size(specs)
    if size < 1e-9 or any(gen.spec_size([sp]) < 1e-9 * size for sp in specs):
        ctx.discard('segment far below the 1e-3 coordinate scale (squared distances underflow)')
    z = query_point(case, specs, size)
    if not (math.isfinite(z.real) and math.isfinite(z.imag)):
        ctx.discard('query point not finite')
    ctx.count('q:' + case['q'])
    if size < 1e-4:
        ctx.count('size_below_1e-4')
    pos = max(abs(X.C(p)) for s in specs for p in s[1:]) + abs(z)
    if case['what'] == 'seg':
        spec = specs[0]
        seg = ctx.lib('build', gen.build_seg, spec)
        if case['k'] % 3 == 0:
            # the segment under test is the reversed copy of one that has already been queried (caches must not leak)
            seg.radialrange(z)
            seg.poly()
            seg.length()
            seg = ctx.lib('reversed', seg.reversed)
            spec = [spec[0]] + list(reversed(spec[1:]))
            ctx.count('reversed_after_queries')
        elif case['k'] % 3 == 1 and spec[0] != 'L':
            # ... or the same object, queried and then edited in place (an end point reassigned)
            seg.radialrange(z)
            seg.poly()
            seg.bbox()
            seg.end = seg.end + complex(0.37, -0.21) * size
            spec = gen.seg_spec_of(seg)
            ctx.count('reassigned_after_queries')
        ctx.count('kind:' + spec[0])
        res = ctx.lib('radialrange/' + spec[0], seg.radialrange, z)
        (dmin, tmin), (dmax, tmax) = res
        check_one(ctx, spec, seg, z, float(dmin), float(tmin), float(dmax), float(tmax), size, pos, case['q'])
        return
    path = ctx.lib('build', gen.build_path, specs)
    ctx.count('path')
    if any(sp[1] == sp[-1] for sp in specs):
        ctx.count('path_with_loop_segment')
    res = ctx.lib('Path.radialrange', path.radialrange, z)
    (dmin, tmin, imin), (dmax, tmax, imax) = res
    ctx.check(isinstance(imin, (int, np.integer)) and isinstance(imax, (int, np.integer)) and 0 <= imin < len(path) and 0 <= imax < len(path),
              'path/index', 'radialrange returned segment indices %r, %r' % (imin, imax))
    tol = 1e-7 * size + 256 * EPS * pos
    for name, d, t, i in (('min', dmin, tmin, imin), ('max', dmax, tmax, imax)):
        ctx.check(0 <= t <= 1, 'path/t_range', 't%s=%r' % (name, t))
        got = abs(complex(path[i].point(t)) - z)
        ctx.check(abs(got - d) <= tol + 1e-9 * d, 'path/d_not_attained/' + name, 'd%s=%r but |path[%d].point(%r)-z|=%r' % (name, d, i, t, got))
    refs = [ref_extremes(sp, z) for sp in specs]
    rmin = min(r[0][0] for r in refs)
    rmax = max(r[1][0] for r in refs)
    ctx.nontrivial()
    ctx.check(dmin <= rmin + tol + 1e-9 * rmin, 'path/not_global_min/' + case['q'], 'dmin=%r (segment %d) but a point at distance %r exists' % (dmin, imin, rmin))
    ctx.check(dmax >= rmax - tol - 1e-9 * rmax, 'path/not_global_max/' + case['q'], 'dmax=%r (segment %d) but a point at distance %r exists' % (dmax, imax, rmax))
    c = ctx.lib('closest_point_in_path', closest_point_in_path, z, path)
    f = ctx.lib('farthest_point_in_path', farthest_point_in_path, z, path)
    ctx.check(tuple(c) == (dmin, tmin, imin) and tuple(f) == (dmax, tmax, imax), 'path/closest_farthest_disagree',
              'closest/farthest_point_in_path %r %r disagree with radialrange %r' % (c, f, res))


def check_one(ctx, spec, seg, z, dmin, tmin, dmax, tmax, size, pos, q):
    kind = spec[0]
    tol = 1e-7 * size + 256 * EPS * pos
    ctx.check(0 <= tmin <= 1 and 0 <= tmax <= 1, 't_range/' + kind, 'tmin=%r tmax=%r' % (tmin, tmax))
    for name, d, t in (('min', dmin, tmin), ('max', dmax, tmax)):
        got = abs(complex(seg.point(t)) - z)
        ctx.check(abs(got - d) <= tol + 1e-9 * d, 'd_not_attained/%s/%s' % (kind, name), 'd%s=%r but |point(%r)-z|=%r' % (name, d, t, got))
    (rmin, rtmin), (rmax, rtmax) = ref_extremes(spec, z)
    if kind != 'L' and 0.001 < rtmin < 0.999:
        ctx.count('interior_min')
        ctx.nontrivial()
    if kind != 'L' and 0.001 < rtmax < 0.999:
        ctx.count('interior_max')
        ctx.nontrivial()
    ctx.check(dmin <= rmin + tol + 1e-9 * rmin, 'not_global_min/%s/%s' % (kind, q),
              'dmin=%r at t=%r but the point at t=%r is at distance %r' % (dmin, tmin, rtmin, rmin))
    ctx.check(dmax >= rmax - tol - 1e-9 * rmax, 'not_global_max/%s/%s' % (kind, q),
              'dmax=%r at t=%r but the point at t=%r is at distance %r' % (dmax, tmax, rtmax, rmax))
