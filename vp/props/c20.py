"""C20 -- smoothed_path removes kinks without moving the path."""
from fractions import Fraction as F
import math

import numpy as np
from hypothesis import strategies as st

from vp import gen
from vp.ref import bez_ref as R
from vp.ref import xgeom as X

ID = 'C20'
RULE = ("continuous Line/CubicBezier paths of 1-6 segments built from headings: corner angles from 0.5 to 179 degrees in both "
        "turning directions, already-smooth joints (exact), segment lengths 0.05x..50x maxjointsize, cubics with control1==start / "
        "control2==end (what S commands after lines produce), open and closed (closed by a line or by a cubic); maxjointsize in "
        "(0.01,10) x size, tightness in (0,2). Calls inside np.errstate(invalid='raise'). Oracle (validity predicate): output "
        "continuous, same start/end (open) or closed (closed), unit tangents at every joint (closing joint included) agree "
        "within 2e-5, every sampled point within maxjointsize of the input path, smooth input joints preserved, single-segment "
        "path returned unchanged. Non-trivial = at least one joint actually smoothed; distinct by case hash.")
ASSUMPTIONS = ["180-degree reversals (corner angle > 179.95 deg) are excluded as the property says", "tangents at joints are computed from "
               "reference derivatives with the one-sided-limit rule of C15",
               "distance to the input path is measured against a 4000-point flattening (slack = its chord sagitta bound + 1e-9*size)"]
RULE += ' Also: Loop cubics, point-symmetric S-curves, segments up to 1000 x maxjointsize, and a small no-scipy configuration.'   # added after the seeded-change rounds (DESIGN.md section 10)
CONFIGS = ['scipy', 'noscipy']
BUDGET = {'quick': {'scipy': 6000, 'noscipy': 64}, 'thorough': {'scipy': 100000, 'noscipy': 1500}}
REQUIRED = ['closing_joint_already_smooth', 'joint:LL', 'joint:LC', 'joint:CL', 'joint:CC', 'closed', 'open', 'already_smooth_joint', 'single_segment', 'smoothed',
            'cubic_coincident_end_control', 'closing_joint_smoothed', 'loop_cubic']
CASE_TIMEOUT = 60
TIME_LIMIT = {'quick': 250, 'thorough': 3300}

EPS = 2.0 ** -52


@st.composite
def path_case(draw, config='scipy'):
    sc = draw(st.sampled_from([1e-2, 1.0, 1.0, 1e2] if config == 'scipy' else [1.0]))
    # (without scipy every joint costs of the order of a second: short paths at unit scale)
    n = draw(st.sampled_from([1, 2, 2, 3, 3, 4, 5, 6] if config == 'scipy' else [2, 2, 3]))
    mj = draw(st.one_of(st.sampled_from([3.0, 1.0, 0.1]), gen.floats_in(0.01, 10.0))) * sc
    tight = draw(st.one_of(st.sampled_from([1.99, 1.0, 0.5]), gen.floats_in(0.01, 1.99)))
    heading = draw(gen.floats_in(-math.pi, math.pi))
    cur = complex(draw(gen.coord(sc)), draw(gen.coord(sc)))
    specs = []
    for i in range(n):
        if i > 0:
            turn = draw(st.one_of(st.just(0.0), st.just(0.0), gen.floats_in(0.5, 179.0), gen.floats_in(0.5, 179.0),
                                  st.sampled_from([90.0, 45.0, 135.0, 1.0, 170.0, 179.5, 179.9])))
            heading += math.radians(turn) * draw(st.sampled_from([1, -1]))
        L = mj * draw(st.one_of(st.sampled_from([0.05, 0.5, 1.0, 5.0, 50.0, 200.0, 1000.0]), gen.floats_in(0.05, 50.0)))
        d_in = complex(math.cos(heading), math.sin(heading))
        kind = draw(st.sampled_from(['L', 'L', 'L', 'C', 'C', 'C', 'Cs', 'Cs', 'Ce', 'Ce', 'Cloop', 'Csym'] if config == 'scipy'
                                    else ['Csym', 'Csym', 'C', 'L']))
        if kind == 'L':
            end = cur + L * d_in
            specs.append(['L', gen.P(cur), gen.P(end)])
        else:
            bend = math.radians(draw(gen.floats_in(-120.0, 120.0)))
            heading_out = heading + bend
            d_out = complex(math.cos(heading_out), math.sin(heading_out))
            mid_dir = complex(math.cos(heading + bend / 2), math.sin(heading + bend / 2))
            end = cur + L * mid_dir
            a = L * draw(gen.floats_in(0.15, 0.5))
            b = L * draw(gen.floats_in(0.15, 0.5))
            c1 = cur + a * d_in
            c2 = end - b * d_out
            if kind == 'Csym':
                # a point-symmetric S-curve: its mid-point lies on its chord (the coarsest chord approximations of its length coincide)
                end = cur + L * d_in
                w = a * complex(0.6, 0.8) * (d_in / abs(d_in))
                c1, c2 = cur + w, end - w
            if kind == 'Cloop':
                # a loop: the cubic returns to its own start point (chord 0, positive length)
                end = cur
                c2 = end - b * d_out
            if kind == 'Cs':
                c1 = cur          # tangent at the start is then the direction to control2
            if kind == 'Ce':
                c2 = end
            specs.append(['C', gen.P(cur), gen.P(c1), gen.P(c2), gen.P(end)])
            # the actual end heading
            te = end - c2 if c2 != end else (end - c1 if c1 != end else end - cur)
            heading = math.atan2(te.imag, te.real)
            if kind == 'Cs':
                pass
        cur = gen.C(specs[-1][-1])
    closing = draw(st.sampled_from(['open', 'open', 'line', 'cubic', 'smooth_cubic'])) if n >= 2 else 'open'
    if closing != 'open':
        start = gen.C(specs[0][1])
        if abs(cur - start) > 0.05 * mj:
            if closing == 'line':
                specs.append(['L', gen.P(cur), gen.P(start)])
            elif closing == 'smooth_cubic':
                # leaves the last segment along its end tangent and arrives at the start along the first segment's start
                # tangent: both the joint before it and the closing joint are already smooth
                t_end = end_tangent(specs[-1], 1)
                t_start = end_tangent(specs[0], 0)
                if t_end is None or t_start is None:
                    specs.append(['L', gen.P(cur), gen.P(start)])
                else:
                    dd = abs(start - cur)
                    specs.append(['C', gen.P(cur), gen.P(cur + 0.4 * dd * t_end), gen.P(start - 0.4 * dd * t_start), gen.P(start)])
            else:
                specs.append(['C', gen.P(cur), gen.P(cur + (start - cur) * 0.3 + 0.2j * (start - cur)), gen.P(start - (start - cur) * 0.3 + 0.2j * (start - cur)), gen.P(start)])
        else:
            closing = 'open'
    return {'segs': specs, 'maxjointsize': mj, 'tightness': tight, 'closing': closing, 'scale': sc}


def strategy(tier, config):
    return path_case(config)


def end_tangent(spec, end):
    """unit tangent of a Line/Cubic spec at t=0 (end=0) or t=1 (end=1) with the one-sided-limit rule"""
    fp = [R.fpt(p) for p in spec[1:]]
    n = len(fp) - 1
    for k in range(1, n + 1):
        d = R.bern_deriv(fp, F(end), k)
        if d[0] != 0 or d[1] != 0:
            z = R.to_c(d)
            if end == 1 and k % 2 == 0:
                z = -z
            return z / abs(z)
    return None


def joint_angle(a, b):
    """angle in degrees between unit vectors a and b"""
    c = max(-1.0, min(1.0, a.real * b.real + a.imag * b.imag))
    return math.degrees(math.acos(c))


def check(case, ctx):
    from svgpathtools import Path, smoothed_path, Line, CubicBezier
    specs = case['segs']
    mj, tight = case['maxjointsize'], case['tightness']
    if not (0 < tight < 2 and mj > 0):
        ctx.discard('parameters out of their documented range')
    for s in specs:
        if len({tuple(p) for p in s[1:]}) < 2:
            ctx.discard('point-like segment')
        if s[0] == 'L' and s[1] == s[2]:
            ctx.discard('zero-length line')
    n = len(specs)
    closed = n >= 2 and specs[0][1] == specs[-1][-1]
    # joints of the input and their angles
    tans_in = [(end_tangent(s, 0), end_tangent(s, 1)) for s in specs]
    if any(a is None or b is None for a, b in tans_in):
        ctx.discard('undefined end tangent')
    joints = list(range(1, n)) + ([0] if closed else [])
    angles = {}
    for j in joints:
        angles[j] = joint_angle(tans_in[j - 1][1], tans_in[j][0])
        if angles[j] > 179.95:
            ctx.discard('180-degree reversal')
    path = ctx.lib('build', gen.build_path, specs)
    if not path.iscontinuous():
        ctx.discard('construction not continuous')
    ctx.count('closed' if closed else 'open')
    if any(s[0] == 'C' and (s[1] == s[2] or s[3] == s[4]) for s in specs):
        ctx.count('cubic_coincident_end_control')
    if any(s[0] == 'C' and s[1] == s[4] for s in specs):
        ctx.count('loop_cubic')
    size = gen.spec_size(specs)
    with np.errstate(invalid='raise'):
        out = ctx.lib('smoothed_path', smoothed_path, path, maxjointsize=mj, tightness=tight)
    if n == 1:
        ctx.count('single_segment')
        ctx.check(out is path or out == path, 'single_segment_changed', 'a single-segment path came back as %r' % (out,))
        return
    out_specs = []
    for s in out:
        ctx.check(isinstance(s, (Line, CubicBezier)), 'output/segment_type', 'output contains %s' % type(s).__name__)
        out_specs.append(gen.seg_spec_of(s))
    kinked = [j for j in joints if angles[j] > 1e-3]
    smooth_in = [j for j in joints if angles[j] <= 5e-4]
    for j in kinked:
        ctx.count('joint:%s%s' % (specs[j - 1][0], specs[j][0]))
    if smooth_in:
        ctx.count('already_smooth_joint')
    if closed and 0 in smooth_in:
        ctx.count('closing_joint_already_smooth')
    if len(out) > n:
        ctx.count('smoothed')
        ctx.nontrivial()
        if closed and 0 in kinked:
            ctx.count('closing_joint_smoothed')
    # 1. continuity, end points ------------------------------------------------------------------------
    ctx.check(bool(out.iscontinuous()) and all(a[-1] == b[1] for a, b in zip(out_specs, out_specs[1:])), 'output/not_continuous',
              'smoothed path is not continuous')
    if closed:
        ctx.check(out_specs[0][1] == out_specs[-1][-1] and out.isclosed(), 'output/not_closed', 'input closed, output start %r != end %r' % (out_specs[0][1], out_specs[-1][-1]))
    else:
        ctx.check(out_specs[0][1] == specs[0][1] and out_specs[-1][-1] == specs[-1][-1], 'output/endpoints_moved',
                  'open path: start/end %r/%r became %r/%r' % (specs[0][1], specs[-1][-1], out_specs[0][1], out_specs[-1][-1]))
    # 2. no kinks ------------------------------------------------------------------------------------------
    m = len(out_specs)
    for s in out_specs:
        if len({tuple(p) for p in s[1:]}) < 2:
            ctx.fail('output/point_like_segment', 'output contains a point-like segment %r' % (s,))
    tans_out = [(end_tangent(s, 0), end_tangent(s, 1)) for s in out_specs]
    ojoints = list(range(1, m)) + ([0] if closed else [])
    for j in ojoints:
        a, b = tans_out[j - 1][1], tans_out[j][0]
        if a is None or b is None:
            ctx.fail('output/undefined_tangent', 'output joint %d has an undefined tangent' % j)
        ang = joint_angle(a, b)
        diff = abs(a - b)
        what = 'closing' if j == 0 else 'inner'
        # conditioning: a tangent is a difference of points of magnitude `pos` over the length of the segment piece
        pos = max(abs(gen.C(p)) for s in (out_specs[j - 1], out_specs[j]) for p in s[1:])
        ell = min(gen.spec_size([out_specs[j - 1]]), gen.spec_size([out_specs[j]]))
        jtol = 2e-5 + 256 * EPS * pos / max(ell, 1e-300)
        ctx.check(diff <= jtol, 'kink_left/%s/%s%s' % (what, out_specs[j - 1][0], out_specs[j][0]),
                  'output joint %d (%s) still has a kink: tangents %r -> %r (%.4g deg); input joint angles %r, maxjointsize %r, tightness %r'
                  % (j, what, a, b, ang, {k: round(v, 4) for k, v in angles.items()}, mj, tight))
    # 3. stays within maxjointsize of the input -----------------------------------------------------------------
    ref = np.concatenate([X.spec_eval(s, np.linspace(0, 1, 801)) for s in specs])
    samp = np.concatenate([X.spec_eval(s, np.linspace(0, 1, 33)) for s in out_specs])
    step = max(float(np.abs(np.diff(X.spec_eval(s, np.linspace(0, 1, 801)))).max()) for s in specs)
    dist = np.abs(samp[:, None] - ref[None, :]).min(axis=1)
    worst = float(dist.max())
    ctx.check(worst <= mj + step + 1e-9 * size, 'moved_too_far', 'a point of the smoothed path is %.6g away from the input path (maxjointsize %.6g)' % (worst, mj))
    # 4. smooth joints are preserved ------------------------------------------------------------------------
    for j in smooth_in:
        if j == 0:
            continue
        pt = specs[j][1]
        hits = [k for k in range(1, m) if out_specs[k][1] == pt]
        ctx.check(len(hits) >= 1, 'smooth_joint_moved', 'the smooth input joint at %r is not a joint of the output' % (pt,))
        # (a loop segment makes two joints share one point: any output joint at that point with the input's tangents will do)
        ctx.check(any(abs(tans_out[k][0] - tans_in[j][0]) <= 1e-6 and abs(tans_out[k - 1][1] - tans_in[j - 1][1]) <= 1e-6 for k in hits), 'smooth_joint_tangent_changed',
                  'tangent at the preserved smooth joint %r changed' % (pt,))
