"""C04 -- Arc realises the SVG endpoint parameterisation (F.6.5) for all parameters."""
import math

from hypothesis import strategies as st

from vp import gen
from vp.ref import arc_ref as A

ID = 'C04'
RULE = ("arcs generated from the centre form (centre, rx, ry, rotation, theta1, delta in +-(1..359) deg) converted to end "
        "points by the harness, then perturbed: radii scaled by f in {1e-6..1-1e-12, 1, 1+1e-12..1e6} (f<1: no ellipse fits), "
        "negative-signed radii, rotation + 360k, all four flag pairs; plus directly generated endpoint tuples; scales "
        "1e-3..1e6, eccentricity up to 1e3. Oracles: validity predicate from the statement, differential against "
        "vp/ref/arc_ref.py (F.6.5/F.6.6) at 17 parameters, closed-form and finite-difference derivatives n=1..6, end points "
        "of as_cubic_curves/as_quad_curves(k), k=1..6. Non-trivial = rotation not a multiple of 360, or unequal radii, or "
        "radius correction active; distinct by parameter tuple.")
ASSUMPTIONS = ["within |1/Lambda - 1| < 1e-6 of the exactly-fitting configuration, and within 0.02 deg of a 180 deg span, the "
               "centre is a square root of a cancelling difference: tolerance 2e-4*size instead of 1e-7*size (the library derives its angles with acos, accurate to sqrt(eps) ~ 1.5e-8 near 0/180 deg), either "
               "large_arc reading accepted",
               "coordinates at scales 1e-3..1e6 (the property's 'admissible' parameters); start != end; non-zero radii"]
RULE += ' Also: A quarter of the arcs are obtained by reversed() from the mirror-image description.'   # added after the seeded-change rounds (DESIGN.md section 10)
CONFIGS = ['scipy']
BUDGET = {'quick': 40000, 'thorough': 600000}
REQUIRED = ['arc_obtained_from_reversed', 'radius_enlarged', 'radius_kept', 'neg_radius', 'flags:00', 'flags:01', 'flags:10', 'flags:11', 'rot_outside_0_360']


@st.composite
def arc_case(draw):
    if draw(st.integers(0, 4)) == 0:
        e = draw(gen.arc_endpoint_form())
        return {'origin': 'endpoint', 'spec': e['spec'], 'scale': e['scale']}
    c = draw(gen.arc_center_form())
    spec = list(c['spec'])
    f = draw(st.sampled_from([1.0, 1.0, 1.0, 1.0, 'small', 'big', 'justsmall', 'justbig']))
    if f == 'small':
        f = draw(st.one_of(st.sampled_from([1e-6, 0.5, 0.9, 1e-3]), gen.floats_in(1e-6, 0.999)))
    elif f == 'big':
        f = draw(st.one_of(st.sampled_from([2.0, 10.0, 1e6]), gen.floats_in(1.001, 1e6)))
    elif f == 'justsmall':
        f = 1.0 - draw(st.sampled_from([1e-12, 1e-10, 1e-9, 1e-8, 1e-7, 1e-5, 1e-3]))
    elif f == 'justbig':
        f = 1.0 + draw(st.sampled_from([1e-12, 1e-10, 1e-9, 1e-8, 1e-7, 1e-5, 1e-3]))
    sx = draw(st.sampled_from([1, 1, 1, -1]))
    sy = draw(st.sampled_from([1, 1, 1, -1]))
    spec[2] = [sx * spec[2][0] * f, sy * spec[2][1] * f]
    spec[3] = spec[3] + 360.0 * draw(st.sampled_from([0, 0, 0, 1, -1, 2, -3]))
    if draw(st.booleans()):
        spec[4] = draw(st.integers(0, 1))
        spec[5] = draw(st.integers(0, 1))
    return {'origin': 'centre', 'spec': spec, 'scale': c['scale'], 'f': f}


def strategy(tier, config):
    @st.composite
    def s(draw):
        c = draw(arc_case())
        c['ts'] = draw(st.lists(gen.ts_unit, min_size=1, max_size=2))
        c['k'] = draw(st.integers(1, 6))
        c['via'] = draw(st.sampled_from(['direct', 'direct', 'direct', 'from_reversed']))
        return c
    return s()


TGRID = [i / 16.0 for i in range(17)]


def check(case, ctx):
    from svgpathtools import Arc
    spec = case['spec']
    start, (rx_in, ry_in), rot, large, sweep, end = spec[1], spec[2], spec[3], spec[4], spec[5], spec[6]
    if start == end or rx_in == 0 or ry_in == 0:
        ctx.discard('inadmissible')
    zs, ze = gen.C(start), gen.C(end)
    L = A.lam(start, rx_in, ry_in, rot, end)
    if not (1e-24 < L < 1e24):
        ctx.discard('chord/radius ratio beyond 1e12 (squares under/overflow)')
    ref = A.endpoint_to_center(start, rx_in, ry_in, rot, large, sweep, end)
    if case.get('via') == 'from_reversed' and L < 1 - 1e-6:
        # the arc under test is the product of reversed() applied to the same arc described from its other end (its radii fit,
        # so they are not touched): every claim below holds for it as for a directly constructed one
        arc = ctx.lib('reversed', ctx.lib('Arc', Arc, ze, complex(rx_in, ry_in), rot, bool(large), not bool(sweep), zs).reversed)
        ctx.count('arc_obtained_from_reversed')
    else:
        arc = ctx.lib('Arc', Arc, zs, complex(rx_in, ry_in), rot, bool(large), bool(sweep), ze)
    size = max(abs(zs - ze), ref['rx'], ref['ry'])
    pos = max(abs(zs), abs(ze), size)
    if not (math.isfinite(L) and math.isfinite(size) and L > 0):
        ctx.discard('non-finite')
    ecc = max(ref['rx'], ref['ry']) / min(ref['rx'], ref['ry'])
    degenerate = abs(1.0 / L - 1.0) < 1e-6 if L <= 1 else False
    if L > 1:
        degenerate = True  # enlarged radii: exactly the degenerate (chord = diameter) configuration
    half = abs(abs(ref['delta_deg']) - 180.0) < 0.02 or degenerate
    # conditioning: errors in the unit-circle coordinates are amplified by the eccentricity and by |position|/size
    base = 1e-7 * size * max(1.0, ecc) + 64 * gen.EPS * pos * max(1.0, ecc)
    tol = max(2e-4 * size * max(1.0, ecc ** 0.5), base) if degenerate else base
    ctx.count('flags:%d%d' % (large, sweep))
    ctx.count('radius_enlarged' if L > 1 else 'radius_kept')
    if rx_in < 0 or ry_in < 0:
        ctx.count('neg_radius')
    if not (0 <= rot < 360):
        ctx.count('rot_outside_0_360')
    if degenerate:
        ctx.count('near_exactly_fitting')
    if (rot % 360 != 0) or abs(rx_in) != abs(ry_in) or L > 1:
        ctx.nontrivial(key=spec)

    # 1. validity predicate --------------------------------------------------------------
    p0 = complex(ctx.lib('point', arc.point, 0.0))
    p1 = complex(ctx.lib('point', arc.point, 1.0))
    ctx.check(abs(p0 - zs) <= tol, 'point0', 'point(0)=%r but start=%r (|diff|=%.3g, tol %.3g, Lambda=%r)' % (p0, zs, abs(p0 - zs), tol, L))
    ctx.check(abs(p1 - ze) <= tol, 'point1', 'point(1)=%r but end=%r (|diff|=%.3g, tol %.3g, Lambda=%r)' % (p1, ze, abs(p1 - ze), tol, L))
    r = arc.radius
    if L <= 1 - 1e-12:
        ctx.check(r.real == abs(rx_in) and r.imag == abs(ry_in), 'radius/changed',
                  'an ellipse fits (Lambda=%r) but radius %r != |input| %r' % (L, r, (abs(rx_in), abs(ry_in))))
    elif L >= 1 + 1e-12:
        k = math.sqrt(L)
        ok = abs(r.real - k * abs(rx_in)) <= 1e-12 * k * abs(rx_in) * 8 and abs(r.imag - k * abs(ry_in)) <= 1e-12 * k * abs(ry_in) * 8
        ctx.check(ok, 'radius/enlargement', 'Lambda=%r: radius %r, expected sqrt(Lambda)*|input| = %r'
                  % (L, r, (k * abs(rx_in), k * abs(ry_in))))
    ctx.check(arc.rotation == rot, 'rotation_changed', 'stored rotation %r != %r' % (arc.rotation, rot))
    d = float(arc.delta)
    ctx.check(abs(d) <= 360.0 + 1e-9, 'delta/range', 'delta=%r' % d)
    ctx.check((d > 0) == bool(sweep) and d != 0, 'delta/sign', 'sweep=%r but delta=%r' % (sweep, d))
    if not half:
        ctx.check((abs(d) > 180.0) == bool(large), 'delta/large_arc', 'large_arc=%r but |delta|=%r' % (large, abs(d)))
    # points lie on the stored ellipse
    c = arc.center
    cphi, sphi = math.cos(math.radians(arc.rotation)), math.sin(math.radians(arc.rotation))
    for t in TGRID + case['ts']:
        z = complex(ctx.lib('point', arc.point, t)) - c
        u = complex(z.real * cphi + z.imag * sphi, -z.real * sphi + z.imag * cphi)
        q = math.hypot(u.real / r.real, u.imag / r.imag)
        ctx.check(abs(q - 1.0) <= 1e-9 + 64 * gen.EPS * abs(c) / min(r.real, r.imag), 'off_ellipse',
                  'point(%r) is off the stored ellipse: |u|=%r' % (t, q))
        # 2. differential against F.6.5
        w = A.point(ref, t)
        ctx.check(abs(complex(arc.point(t)) - w) <= tol * 4, 'vs_reference',
                  'point(%r)=%r, F.6.5 reference %r (|diff|=%.3g tol %.3g; Lambda=%r delta lib %r ref %r)'
                  % (t, arc.point(t), w, abs(complex(arc.point(t)) - w), tol * 4, L, d, ref['delta_deg']))

    # 3. derivatives --------------------------------------------------------------------------------
    cf = {'rx': r.real, 'ry': r.imag, 'phi_deg': arc.rotation, 'theta1_deg': float(arc.theta), 'delta_deg': d}
    rmax = max(r.real, r.imag)
    for t in case['ts']:
        for n in range(1, 7):
            got = complex(ctx.lib('derivative', arc.derivative, t, n))
            want = A.deriv(cf, t, n)
            scale_n = rmax * abs(math.radians(d)) ** n
            ctx.check(abs(got - want) <= 1e-9 * scale_n, 'derivative/closed_form/n%%4=%d' % (n % 4),
                      'derivative(%r, n=%d)=%r, closed form %r' % (t, n, got, want))
        # finite differences of point (guards against a self-consistent but wrong closed form)
        if 0.01 < t < 0.99:
            h = 1e-4
            fd1 = (complex(arc.point(t + h)) - complex(arc.point(t - h))) / (2 * h)
            fd2 = (complex(arc.point(t + h)) - 2 * complex(arc.point(t)) + complex(arc.point(t - h))) / (h * h)
            dd = abs(math.radians(d))
            ctx.check(abs(complex(arc.derivative(t, 1)) - fd1) <= 1e-5 * rmax * dd * (1 + dd * dd) + 1e-6 * pos / h * 1e-6,
                      'derivative/finite_difference/n1', 'derivative(%r)=%r, finite difference %r' % (t, arc.derivative(t, 1), fd1))
            ctx.check(abs(complex(arc.derivative(t, 2)) - fd2) <= 1e-4 * rmax * dd * dd * (1 + dd * dd) + 1e-3 * rmax + 64 * gen.EPS * pos / (h * h),
                      'derivative/finite_difference/n2', 'derivative(%r,2)=%r, finite difference %r' % (t, arc.derivative(t, 2), fd2))
    for n in (0,):
        try:
            arc.derivative(0.5, n)
        except ValueError:
            pass
        except Exception as e:
            ctx.fail('derivative/n<=0', 'derivative(n=%d) raised %s, expected ValueError' % (n, type(e).__name__))
        else:
            ctx.fail('derivative/n<=0', 'derivative(n=%d) returned instead of raising ValueError' % n)

    # 4. Bezier approximations start/end at the arc's end points and are joined ------------------------
    k = case['k']
    for name in ('as_cubic_curves', 'as_quad_curves'):
        pieces = list(ctx.lib(name, lambda: list(getattr(arc, name)(k))))
        ctx.check(len(pieces) == k, name + '/count', '%s(%d) returned %d pieces' % (name, k, len(pieces)))
        ctx.check(pieces[0].start == arc.start, name + '/start', '%s(%d)[0].start=%r != arc.start=%r' % (name, k, pieces[0].start, arc.start))
        ctx.check(pieces[-1].end == arc.end, name + '/end', '%s(%d)[-1].end=%r != arc.end=%r' % (name, k, pieces[-1].end, arc.end))
        for a, b in zip(pieces, pieces[1:]):
            ctx.check(a.end == b.start, name + '/joined', '%s(%d): consecutive pieces not joined' % (name, k))
        # the pieces approximate the arc: their joints lie on the arc at i/k
        for i, pc in enumerate(pieces):
            want = complex(arc.point((i + 1) / float(k)))
            ctx.check(abs(complex(pc.end) - want) <= tol * 4 + 1e-9 * size, name + '/joint_position',
                      '%s(%d) piece %d ends at %r, arc.point(%d/%d)=%r' % (name, k, i, pc.end, i + 1, k, want))
