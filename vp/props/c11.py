"""C11 -- Every reported intersection is a real one, in range, with coherent parameters."""
import math

import numpy as np
from hypothesis import strategies as st

from vp import gen
from vp.ref import xgeom as X

ID = 'C11'
RULE = ("all 16 ordered type pairs from {Line, Quadratic, Cubic, Arc (circular/elliptic, rotated or not, both sweeps)} in "
        "configurations: constructed crossing (both curves forced through a common point), a line ending on / a hair short of / a hair beyond the other curve, a curve starting exactly on an axis-parallel line, tangency (tangent line / mirror "
        "image), near-miss (tangent configuration shifted by a gap 1e-9..1e-2 of the size, both ways), disjoint, random; "
        "scales 1e-2, 1, 1e3; and pairs of paths of 1-3 such segments. Oracle: validity predicate on every returned pair "
        "(range, coincidence within 1e-5 / 1e-3 of the size), operand-swap agreement after clustering at 1e-4, "
        "Path.intersect tuple coherence. Non-trivial = at least one pair was returned; distinct by case hash.")
ASSUMPTIONS = ["inputs the docstrings exclude are not generated (identical segments, overlapping collinear lines, zero-length "
               "lines, arcs on one ellipse with overlapping spans)",
               "an exception is tolerated (counted) for general arc-arc pairs; for other pairs only TypeError/AttributeError/"
               "IndexError/NameError count as violations, any other exception is 'no output' (the property speaks about returned pairs)"]
RULE += ' Also: Pairs are also placed 1e3..1e6 sizes from the origin; exactly axis-parallel lines; explicit tol argument; paths with sweep-twin arcs, end-touching configurations and justonemode=True.'   # added after the seeded-change rounds (DESIGN.md section 10)
CONFIGS = ['scipy']
BUDGET = {'quick': 2400, 'thorough': 100000}
REQUIRED = ['pair:LL', 'pair:LQ', 'pair:QC', 'pair:CC', 'pair:AL', 'pair:LA', 'pair:AC', 'pair:AA', 'cfg:crossing', 'cfg:tangent',
            'cfg:nearmiss', 'cfg:disjoint', 'cfg:random', 'cfg:endtouch', 'cfg:tjunction', 'paths', 'returned_pairs', 'far_from_origin', 'justonemode_result', 'explicit_tol']
CASE_TIMEOUT = 8
TIME_LIMIT = {'quick': 250, 'thorough': 3300}

KINDS = 'LQCA'
import os
STRICT_ENDPOINTS = not os.environ.get('C11_RELAX_ENDPOINTS')


@st.composite
def curve_through(draw, kind, P, u, sc):
    """a segment spec of `kind` that passes through complex P at parameter u"""
    pt = st.tuples(gen.coord(sc), gen.coord(sc)).map(lambda p: complex(p[0], p[1]))
    if kind == 'A':
        a = draw(gen.arc_center_form(scale_strategy=st.just(sc), max_ecc=8,
                                     circular=draw(st.sampled_from([True, None, None])),
                                     rotated=draw(st.sampled_from([False, None, None]))))
        spec = a['spec']
        q = X.spec_eval(spec, np.array([u]))[0]
        return X.shift_spec(spec, P - q)
    if kind == 'L':
        d = draw(pt)
        if abs(d) < 0.2 * sc:
            d = complex(sc, 0.5 * sc)
        ax = draw(st.integers(0, 7))
        if ax == 0:        # exactly vertical / horizontal lines (the solvers have branches of their own for them)
            d = complex(0.0, abs(d) * (1 if d.imag >= 0 else -1))
        elif ax == 1:
            d = complex(abs(d) * (1 if d.real >= 0 else -1), 0.0)
        return X.through_point('L', P, u, [d], sc)
    if kind == 'Q':
        return X.through_point('Q', P, u, [P + draw(pt), P + draw(pt)], sc)
    return X.through_point('C', P, u, [P + draw(pt), P + draw(pt), P + draw(pt)], sc)


@st.composite
def pair_case(draw, kinds=None, cfgs=None):
    sc = draw(st.sampled_from([1e-2, 1.0, 1.0, 1e3]))
    k1 = draw(st.sampled_from(kinds or KINDS))
    k2 = draw(st.sampled_from(kinds or KINDS))
    if k1 == 'A' and k2 == 'A' and draw(st.booleans()):
        k2 = draw(st.sampled_from('LQC'))   # arc-arc pairs run the subdivision solver on arcs (slow): keep them rarer
    cfg = draw(st.sampled_from(cfgs or ['crossing', 'crossing', 'crossing', 'tangent', 'nearmiss', 'disjoint', 'random', 'endtouch', 'tjunction']))
    if cfg in ('tangent', 'nearmiss') and k1 in 'QCA' and k2 in 'QCA' and draw(st.integers(0, 11)) != 0:
        # tangential curved pairs cost seconds each in the subdivision solver: keep them, but rarer
        cfg = 'crossing'
    P = complex(draw(gen.coord(sc)), draw(gen.coord(sc)))
    u1 = draw(gen.floats_in(0.05, 0.95))
    u2 = draw(gen.floats_in(0.05, 0.95))
    s1 = draw(curve_through(k1, P, u1, sc))
    if cfg in ('tangent', 'nearmiss'):
        tan = X.spec_tangent(s1, u1)
        if abs(tan) == 0 or not math.isfinite(abs(tan)):
            tan = complex(sc, 0)
        d = tan / abs(tan)
        if k2 in 'QC' and s1[0] in 'QC' and draw(st.booleans()):
            # mirror image of curve 1 about its tangent line at P
            s2 = [s1[0]] + [[(P + d * d * (X.C(p) - P).conjugate()).real, (P + d * d * (X.C(p) - P).conjugate()).imag] for p in s1[1:]]
            u2 = u1
        else:
            L = draw(gen.floats_in(0.5, 4.0)) * sc
            s2 = X.through_point('L', P, u2, [d * L], sc)
        if cfg == 'nearmiss':
            gap = draw(st.sampled_from([1e-9, 1e-7, 1e-5, 1e-3, 1e-2])) * sc * draw(st.sampled_from([1, -1]))
            s2 = X.shift_spec(s2, 1j * d * gap)
    elif cfg == 'endtouch':
        # a line that ends at the crossing point, a hair before it or a hair beyond it
        ang = draw(gen.floats_in(0.0, 6.283))
        d = complex(math.cos(ang), math.sin(ang))
        L = draw(gen.floats_in(0.5, 3.0)) * sc
        gap = draw(st.sampled_from([0.0, 1e-9, 1e-7, 5e-7, 1e-5, -1e-9, -1e-7, -5e-7, -1e-5])) * draw(st.sampled_from([1.0, sc]))
        A0, B0 = P - L * d, P + gap * d
        if draw(st.booleans()):
            A0, B0 = B0, A0
        s2 = ['L', [A0.real, A0.imag], [B0.real, B0.imag]]
    elif cfg == 'tjunction':
        # curve 1 starts exactly on an axis-parallel line (contact at an extreme of both control boxes)
        p0 = X.C(s1[1])
        half = draw(gen.floats_in(0.5, 3.0)) * sc
        if draw(st.booleans()):
            s2 = ['L', [p0.real - half, p0.imag], [p0.real + half * draw(st.sampled_from([1.0, 0.0])), p0.imag]]
        else:
            s2 = ['L', [p0.real, p0.imag - half], [p0.real, p0.imag + half * draw(st.sampled_from([1.0, 0.0]))]]
    elif cfg == 'random':
        s2 = draw(curve_through(k2, P + complex(draw(gen.coord(sc)), draw(gen.coord(sc))) * 0.3, u2, sc))
    else:
        s2 = draw(curve_through(k2, P, u2, sc))
        if cfg == 'disjoint':
            size = gen.spec_size([s1, s2])
            s2 = X.shift_spec(s2, complex(3 * size, 2.5 * size))
    far = 0
    if draw(st.integers(0, 3)) == 0:
        # the same configuration far from the origin (map-like coordinates): the curves' size, not their position, is the yardstick
        far = draw(st.sampled_from([1e3, 1e4, 1e5, 1e6]))
        off = complex(draw(st.sampled_from([1.0, -1.0, 0.5])), draw(st.sampled_from([0.7, -1.0, 0.0]))) * far * sc
        s1, s2, P = X.shift_spec(s1, off), X.shift_spec(s2, off), P + off
    return {'what': 'pair', 'cfg': cfg, 'scale': sc, 's1': s1, 's2': s2, 'P': [P.real, P.imag], 'u1': u1, 'u2': u2, 'far': far}


@st.composite
def paths_case(draw):
    base = draw(pair_case(cfgs=['crossing', 'crossing', 'random', 'endtouch', 'tjunction']))
    sc = base['scale']
    extra1 = [draw(curve_through(draw(st.sampled_from('LQC')), X.C(base['P']) + complex(draw(gen.coord(sc)), draw(gen.coord(sc))),
                                 draw(gen.floats_in(0.1, 0.9)), sc)) for _ in range(draw(st.integers(0, 2)))]
    extra2 = [draw(curve_through(draw(st.sampled_from('LQC')), X.C(base['P']) + complex(draw(gen.coord(sc)), draw(gen.coord(sc))),
                                 draw(gen.floats_in(0.1, 0.9)), sc)) for _ in range(draw(st.integers(0, 2)))]
    i1 = draw(st.integers(0, len(extra1)))
    i2 = draw(st.integers(0, len(extra2)))
    p1 = extra1[:i1] + [base['s1']] + extra1[i1:]
    p2 = extra2[:i2] + [base['s2']] + extra2[i2:]
    # a "lens": an arc preceded by its twin with the other sweep flag (same end points, radii, rotation and large_arc)
    if base['s1'][0] == 'A' and draw(st.booleans()):
        tw = list(base['s1'])
        tw[5] = 1 - tw[5]
        p1 = [tw] + p1
    if base['s2'][0] == 'A' and draw(st.booleans()):
        tw = list(base['s2'])
        tw[5] = 1 - tw[5]
        p2 = [tw] + p2
    return {'what': 'paths', 'scale': sc, 'p1': p1, 'p2': p2}


def strategy(tier, config):
    # pairs of lines and arcs only use the closed-form solvers (cheap): they get a share of their own
    return st.one_of(pair_case(), pair_case(), pair_case(), paths_case(), pair_case(kinds='LLAA'), pair_case(kinds='LA'), pair_case(kinds='LA'))


def admissible(spec, scale=None):
    if spec[0] == 'L':
        ok = spec[1] != spec[2]
    elif spec[0] == 'A':
        ok = spec[1] != spec[6] and spec[2][0] != 0 and spec[2][1] != 0
    else:
        ok = len({tuple(p) for p in spec[1:]}) >= 2
    if ok and scale is not None:
        # point-like ("nodal") segments are not curves; the library refuses them in places and subdivides forever in others
        ok = gen.spec_size([spec]) >= 1e-3 * scale
        if ok and spec[0] == 'A':
            # an arc whose chord is below 1e-3 of the scale (a sliver of about a degree at radius 5e-4 came up in the thorough tier)
            # is point-like in the same sense: the library snaps parameters to the end points within an absolute 1e-6
            ok = abs(X.C(spec[6]) - X.C(spec[1])) >= 1e-3 * scale
    return ok


def general_arc_pair(s1, s2):
    if s1[0] == 'A' and s2[0] == 'A':
        def circ_unrot(s):
            return s[3] == 0 and abs(s[2][0]) == abs(s[2][1])
        return not (circ_unrot(s1) and circ_unrot(s2))
    return False


def finite_spec(spec):
    return all(math.isfinite(v) for p in spec[1:] if isinstance(p, list) for v in p)


def check(case, ctx):
    if case['what'] == 'pair':
        return check_pair(case, ctx)
    return check_paths(case, ctx)


def run_intersect(ctx, a, b, tolerated, site):
    try:
        return list(a.intersect(b)), None
    except (TypeError, AttributeError, IndexError, NameError) as e:
        if tolerated:
            return None, e
        ctx.fail('%s/raises/%s' % (site, type(e).__name__), '%s raised %s: %s' % (site, type(e).__name__, str(e)[:200]))
    except Exception as e:
        return None, e


def check_pair(case, ctx):
    s1, s2 = case['s1'], case['s2']
    if not (finite_spec(s1) and finite_spec(s2) and admissible(s1, case['scale']) and admissible(s2, case['scale'])):
        ctx.discard('inadmissible segment')
    if s1[0] == 'L' and s2[0] == 'L':
        d1, d2 = X.C(s1[2]) - X.C(s1[1]), X.C(s2[2]) - X.C(s2[1])
        if abs(d1.real * d2.imag - d1.imag * d2.real) <= 1e-6 * abs(d1) * abs(d2):
            ctx.discard('parallel/collinear lines (overlap excluded by the docstring)')
    if s1 == s2:
        ctx.discard('identical segments')
    a = ctx.lib('build', gen.build_seg, s1)
    b = ctx.lib('build', gen.build_seg, s2)
    if type(a) is type(b) and a == b:
        ctx.discard('identical segments')
    pair = s1[0] + s2[0]
    ctx.count('pair:' + pair)
    ctx.count('cfg:' + case['cfg'])
    if case.get('far'):
        ctx.count('far_from_origin')
    has_arc = 'A' in pair
    tolerated = general_arc_pair(s1, s2)
    size = max(gen.spec_size([s1]), gen.spec_size([s2]))
    tol = (1e-3 if has_arc else 1e-5) * size
    r12, e12 = run_intersect(ctx, a, b, tolerated, 'intersect/' + pair)
    r21, e21 = run_intersect(ctx, b, a, tolerated, 'intersect/' + pair[::-1])
    if r12 is None or r21 is None:
        ctx.count('no_output:%s' % type(e12 or e21).__name__)
    # the optional tol argument (Path.intersect hands its own, 1e-12, to every segment pair): whatever it is used for, the pairs
    # returned are held to the same claims
    rt = None
    if not tolerated:
        try:
            rt = list(a.intersect(b, tol=1e-12))
            ctx.count('explicit_tol')
        except np.linalg.LinAlgError:
            # seen once in 100000 cases of a loaded thorough run and not reproducible from the saved case ("Eigenvalues did not
            # converge" out of numpy.roots): asked again; a second failure is reported
            ctx.count('transient_linalg_error_retried')
            rt = ctx.lib('intersect/%s/tol' % pair, lambda: list(a.intersect(b, tol=1e-12)))
        except Exception as e:
            ctx.fail('intersect/%s/tol/raises/%s' % (pair, type(e).__name__), '%s.intersect(tol=1e-12) raised %s: %s' % (pair, type(e).__name__, str(e)[:200]))
    for res, x, y, nm in ((r12, a, b, pair), (r21, b, a, pair[::-1]), (rt, a, b, pair + '/tol')):
        if res is None:
            continue
        for item in res:
            ctx.check(len(item) == 2, 'malformed', 'intersect returned %r' % (item,))
            t1, t2 = float(item[0]), float(item[1])
            ctx.count('returned_pairs')
            ctx.check(0.0 <= t1 <= 1.0 and 0.0 <= t2 <= 1.0, 'out_of_range/%s' % nm, '%s.intersect returned (%r, %r)' % (nm, t1, t2))
            d = abs(complex(x.point(t1)) - complex(y.point(t2)))
            ctx.check(d <= tol, 'points_differ/%s/%s' % (nm, case['cfg']),
                      '%s.intersect returned (%r, %r) but the points are %.3g apart (allowed %.3g, size %.3g)' % (nm, t1, t2, d, tol, size))
    if r12 or r21:
        ctx.nontrivial()
    # swapping the operands returns the same crossings with the parameters exchanged
    if r12 is not None and r21 is not None and not tolerated:
        # crossings at an end point of either curve are excluded: closed-interval root tests cannot decide them
        # under rounding (counted)
        def interior(p):
            if STRICT_ENDPOINTS:
                return True
            return 1e-3 < p[0] < 1 - 1e-3 and 1e-3 < p[1] < 1 - 1e-3
        allA = [(float(p[0]), float(p[1])) for p in r12]
        allB = [(float(p[1]), float(p[0])) for p in r21]
        ctx.count('swap_check_endpoint_crossings_excluded', sum(1 for p in allA + allB if not interior(p)))
        A = X.cluster([p for p in allA if interior(p)], 1e-4)
        B = X.cluster([p for p in allB if interior(p)], 1e-4)
        fullA, fullB = allA, allB
        for src, dst, nm in ((A, B, pair), (B, A, pair[::-1])):
            for p in src:
                others = fullB if dst is B else fullA
                ok = any(abs(p[0] - q[0]) <= 2e-4 and abs(p[1] - q[1]) <= 2e-4 for q in others)
                if not ok:
                    # a curve that passes through the crossing point twice (fold-back / closed curve): the solver merges
                    # solutions by location, so either parameter of that curve may be reported; accept a result at the
                    # same location
                    zp = complex(a.point(p[0]))
                    if any(abs(complex(a.point(q[0])) - zp) <= tol for q in others):
                        ctx.count('swap_check_same_location_other_parameter')
                        ok = True
                if not ok and not (1e-3 < p[0] < 1 - 1e-3 and 1e-3 < p[1] < 1 - 1e-3):
                    # reported at an end point of one curve: compared only if the independent polyline finder confirms a
                    # crossing there; an end that stops within the solver's resolution of the other curve (a near miss or
                    # a bare touch) is decided by rounding
                    fnd = X.polyline_crossings(s1, s2, n=400)
                    if not any(abs(f[0] - p[0]) <= 5e-3 and abs(f[1] - p[1]) <= 5e-3 for f in fnd):
                        ctx.count('swap_check_endpoint_near_miss_skipped')
                        ok = True
                if not ok:
                    # a tangential touch (curves meeting at less than ~6 degrees) is decided by rounding: whether it is
                    # reported at all may differ between the two operand orders; only transversal crossings are compared
                    ta, tb = X.spec_tangent(s1, min(1.0, max(0.0, p[0]))), X.spec_tangent(s2, min(1.0, max(0.0, p[1])))
                    if abs(ta) == 0 or abs(tb) == 0 or abs(ta.real * tb.imag - ta.imag * tb.real) < 0.1 * abs(ta) * abs(tb):
                        ctx.count('swap_check_tangential_touch_skipped')
                        ok = True
                ctx.check(ok, 'swap_asymmetry/%s/%s' % (''.join(sorted(pair)), case['cfg']),
                          '%s.intersect found a crossing near (%r, %r) that the swapped call does not report: %r vs swapped %r'
                          % (nm, p[0], p[1], sorted(A), sorted(B)))


def check_paths(case, ctx):
    from svgpathtools import Path
    for s in case['p1'] + case['p2']:
        if not (finite_spec(s) and admissible(s, case['scale'])):
            ctx.discard('inadmissible segment')
    p1 = ctx.lib('build', gen.build_path, case['p1'])
    p2 = ctx.lib('build', gen.build_path, case['p2'])
    if p1 == p2:
        ctx.discard('identical paths')
    ctx.count('paths')
    for pp in (case['p1'], case['p2']):
        if any(a[0] == 'A' and b[0] == 'A' and a[:5] == b[:5] and a[6] == b[6] and a[5] != b[5] for a in pp for b in pp):
            ctx.count('paths_with_twin_arcs')
    has_arc = any(s[0] == 'A' for s in case['p1'] + case['p2'])
    any_general_arc_pair = any(general_arc_pair(x, y) for x in case['p1'] for y in case['p2'])
    size = gen.spec_size(case['p1'] + case['p2'])
    tol = (1e-3 if has_arc else 1e-5) * size
    try:
        res = p1.intersect(p2)
    except (TypeError, AttributeError, IndexError, NameError) as e:
        if any_general_arc_pair:
            ctx.count('no_output:%s' % type(e).__name__)
            return
        ctx.fail('Path.intersect/raises/%s' % type(e).__name__, 'Path.intersect raised %s: %s' % (type(e).__name__, str(e)[:200]))
    except Exception as e:
        ctx.count('no_output:%s' % type(e).__name__)
        return
    if res:
        ctx.nontrivial()
    _validate_path_items(ctx, p1, p2, res, tol, '')
    # the same call in its other mode: only the first intersection found (a single tuple), held to the same claims
    try:
        one = p1.intersect(p2, justonemode=True)
    except Exception as e:
        if any_general_arc_pair:
            return
        ctx.fail('Path.intersect/justonemode/raises/%s' % type(e).__name__, 'Path.intersect(justonemode=True) raised %s: %s' % (type(e).__name__, str(e)[:200]))
    if isinstance(one, tuple) and len(one) == 2:
        ctx.count('justonemode_result')
        _validate_path_items(ctx, p1, p2, [one], tol, 'justonemode/')
    else:
        ctx.check(not one, 'path/justonemode/format', 'Path.intersect(justonemode=True) returned %r' % (one,))
        ctx.check(not res, 'path/justonemode/nothing', 'Path.intersect(justonemode=True) found nothing although the default mode returns %d intersections' % len(res))


def _validate_path_items(ctx, p1, p2, res, tol, mode):
    for item in res:
        (T1, seg1, t1), (T2, seg2, t2) = item
        ctx.count('returned_pairs')
        ctx.check(0 <= T1 <= 1 and 0 <= T2 <= 1 and 0 <= t1 <= 1 and 0 <= t2 <= 1, 'path/' + mode + 'out_of_range', 'Path.intersect returned %r' % (item,))
        ctx.check(any(seg1 is s for s in p1) and any(seg2 is s for s in p2), 'path/' + mode + 'segment_not_member', 'returned segments are not members of the paths')
        pts = [complex(seg1.point(t1)), complex(seg2.point(t2))]
        # at a discontinuous joint the path parameter T names two points (C05 accepts either neighbour there), so
        # path.point(T) is compared only away from such joints
        for pth, seg, T, t in ((p1, seg1, T1, t1), (p2, seg2, T2, t2)):
            k = [i for i, sg in enumerate(pth) if sg is seg][0]
            at_break = (t <= 1e-9 and k > 0 and pth[k - 1].end != seg.start) or (t >= 1 - 1e-9 and k < len(pth) - 1 and pth[k + 1].start != seg.end)
            if at_break:
                ctx.count('path_T_at_discontinuous_joint')
            else:
                pts.append(complex(pth.point(T)))
        d = max(abs(x - y) for x in pts for y in pts)
        ctx.check(d <= tol, 'path/' + mode + 'points_differ', 'Path.intersect tuple %r: the four points are %.3g apart (allowed %.3g): %r' % (item, d, tol, pts))
        # T and (seg, t) name the same location
        k1 = [i for i, s in enumerate(p1) if s is seg1][0]
        k2 = [i for i, s in enumerate(p2) if s is seg2][0]
        ctx.check(abs(p1.t2T(k1, t1) - T1) <= 1e-9 and abs(p2.t2T(k2, t2) - T2) <= 1e-9, 'path/' + mode + 'T_t_mismatch', 'T values do not correspond to (segment, t)')
