"""C14 -- area() is the signed enclosed area; enclosure tests agree with crossing parity."""
from fractions import Fraction as F
import math

import numpy as np
from hypothesis import strategies as st

from vp import gen
from vp.ref import exactgeom as E
from vp.ref import xgeom as X

ID = 'C14'
RULE = ("closed polygons with integer vertices (convex, concave, self-intersecting), closed Bezier paths with small-integer control "
        "points, circles/ellipses built from two arcs, mixed line/Bezier/arc outlines, and their similarity/affine images; query "
        "points and outside points in general position (decided exactly in rationals for polygons); pairs (inner, outer) built "
        "as nested / disjoint / crossing. Oracle: exact shoelace / exact integral of x dy in Fractions, pi*rx*ry within the "
        "chord-length bound for arcs; sign, reversal, translation, scaling and determinant laws; exact even-odd parity of the "
        "probe segment versus path_encloses_pt; is_contained_by == (no crossing and inner start enclosed). Non-trivial = "
        "non-convex or curved boundary, or a probe crossing the boundary >= 2 times; distinct by case hash.")
ASSUMPTIONS = ["arc shapes are measured with chord_length = 1e-2 x size (the default 1e-4 costs seconds per arc); bound: relative deficit <= "
               "(h/r_min)^2/6 + 1e-9", "probe segments must miss every vertex by > 1e-6 x size and be transversal to every edge they meet "
               "(exact test); curved outlines: query points farther than 2e-3 x size from the boundary, parity from an 800-point-per-segment flattening"]
RULE += ' Also: Scaling about arbitrary origins with non-dyadic factors, laws on mixed arc/line outlines, exactly vertical/horizontal probes, polygon edges written as degree-elevated Beziers, rounded rectangles with chord lengths around the corner-arc length.'   # added after the seeded-change rounds (DESIGN.md section 10)
CONFIGS = ['scipy']
BUDGET = {'quick': 16000, 'thorough': 300000}
REQUIRED = ['area:polygon', 'area:bezier', 'area:ellipse', 'area:mixed', 'law:reversed', 'law:translated', 'law:scaled', 'law:scaled_xy',
            'law:transform', 'encloses:polygon', 'encloses:curved', 'contained:nested', 'contained:disjoint', 'contained:crossing',
            'polygon:self_intersecting', 'polygon:concave', 'law:scaled_about_origin', 'probe:axis_parallel', 'contained:edges_as_beziers', 'area:rounded_rect', 'area:chord_longer_than_twice_the_arcs']
CASE_TIMEOUT = 60
TIME_LIMIT = {'quick': 250, 'thorough': 3300}

EPS = 2.0 ** -52
ivert = st.tuples(st.integers(-9, 9), st.integers(-9, 9)).map(list)


@st.composite
def polygon_s(draw, simple_only=False):
    n = draw(st.integers(3, 8))
    mode = draw(st.sampled_from(['star', 'star', 'random'] if not simple_only else ['star']))
    if mode == 'star':
        # star-shaped about the origin: sort random directions by angle -> simple (possibly concave) polygon
        pts = draw(st.lists(ivert, min_size=n, max_size=n, unique_by=lambda p: math.atan2(p[1], p[0]) if p != [0, 0] else 99.0))
        pts = [p for p in pts if p != [0, 0]]
        pts.sort(key=lambda p: math.atan2(p[1], p[0]))
    else:
        pts = draw(st.lists(ivert, min_size=n, max_size=n, unique_by=lambda p: tuple(p)))
    if draw(st.booleans()):
        pts = pts[::-1]
    return pts


@st.composite
def bezier_outline_s(draw):
    n = draw(st.integers(2, 5))
    verts = draw(st.lists(ivert, min_size=n, max_size=n, unique_by=lambda p: tuple(p)))
    segs = []
    for i in range(n):
        a, b = verts[i], verts[(i + 1) % n]
        k = draw(st.sampled_from(['L', 'Q', 'C', 'C']))
        if k == 'L':
            segs.append(['L', a, b])
        elif k == 'Q':
            segs.append(['Q', a, draw(ivert), b])
        else:
            segs.append(['C', a, draw(ivert), draw(ivert), b])
    if draw(st.integers(0, 4)) == 0:
        # a loop segment that starts and ends at one vertex (it encloses area although start == end)
        i = draw(st.integers(0, len(segs)))
        v = verts[i % n]
        segs.insert(i, ['C', v, draw(ivert), draw(ivert), v])
    return [[s[0]] + [[float(p[0]), float(p[1])] for p in s[1:]] for s in segs]


@st.composite
def ellipse_s(draw):
    cx, cy = draw(st.integers(-5, 5)), draw(st.integers(-5, 5))
    rx = draw(st.sampled_from([1.0, 2.0, 3.0, 0.5, 5.0]))
    ry = draw(st.sampled_from([1.0, 2.0, 3.0, 0.5, rx]))
    rot = draw(st.sampled_from([0.0, 0.0, 30.0, 90.0, -45.0, 120.0, 180.0, -180.0]))
    sweep = draw(st.integers(0, 1))
    a = gen.ellipse_point([cx, cy], rx, ry, rot, 0.0)
    b = gen.ellipse_point([cx, cy], rx, ry, rot, 180.0)
    return {'segs': [['A', a, [rx, ry], rot, 0, sweep, b], ['A', b, [rx, ry], rot, 0, sweep, a]], 'rx': rx, 'ry': ry, 'sweep': sweep,
            'center': [cx, cy]}


law_s = st.sampled_from(['none', 'reversed', 'translated', 'scaled', 'scaled_xy', 'transform'])


def strategy(tier, config):
    @st.composite
    def s(draw):
        kind = draw(st.sampled_from(['poly_area', 'bez_area', 'bez_area', 'ellipse_area', 'mixed_area', 'encloses', 'encloses', 'encloses_curved',
                                     'contained', 'contained', 'rrect_area']))
        if kind == 'rrect_area':
            # a rectangle with quarter-circle corners; the chord length asked for is of the order of the corner arcs themselves
            w, h = draw(st.integers(2, 12)), draw(st.integers(2, 12))
            r = draw(st.sampled_from([0.25, 0.5, 1.0, 0.125]))
            return {'kind': kind, 'x': draw(st.integers(-5, 5)), 'y': draw(st.integers(-5, 5)), 'w': w, 'h': h, 'r': r, 'ccw': draw(st.booleans()),
                    'chord_factor': draw(st.sampled_from([0.2, 0.45, 0.7, 1.0, 1.6, 2.5, 4.0, 10.0]))}
        law = draw(law_s)
        lp = {'z': [draw(st.integers(-50, 50)), draw(st.integers(-50, 50))], 's': draw(st.sampled_from([2.0, 0.5, -1.0, 3.0, -2.5, 0.76, 1.0 / 3, 1.7])),
              'o': draw(st.sampled_from([None, None, [0.0, 0.0], [34.7, 26.4], [-3.1, 2.2], [1.0, -7.0], [0.1, 0.3]])),
              'sy': draw(st.sampled_from([2.0, 0.5, -1.0, 3.0])),
              'M': [draw(st.integers(-3, 3)) for _ in range(4)] + [draw(st.integers(-5, 5)), draw(st.integers(-5, 5))]}
        if kind == 'poly_area':
            return {'kind': kind, 'poly': draw(polygon_s()), 'law': law, 'lp': lp}
        if kind == 'bez_area':
            return {'kind': kind, 'segs': draw(bezier_outline_s()), 'law': law, 'lp': lp}
        if kind == 'ellipse_area':
            e = draw(ellipse_s())
            return {'kind': kind, 'ell': e, 'law': law if law != 'scaled_xy' else 'scaled', 'lp': lp}
        if kind == 'mixed_area':
            e = draw(ellipse_s())
            # half an ellipse closed by a polyline through an integer vertex
            v = draw(ivert)
            return {'kind': kind, 'ell': e, 'v': v, 'law': law if law != 'scaled_xy' else 'scaled', 'lp': lp}
        if kind == 'encloses':
            poly = draw(polygon_s())
            # query / outside points on a half-integer lattice offset (never on integer lattice lines)
            q = [draw(st.integers(-9, 9)) + draw(st.sampled_from([0.25, 0.5, 0.75])), draw(st.integers(-9, 9)) + draw(st.sampled_from([0.125, 0.375, 0.625]))]
            o = [draw(st.sampled_from([-1, 1])) * (11 + draw(st.integers(0, 5)) + 0.5), draw(st.integers(-14, 14)) + 0.3125]
            if draw(st.booleans()):
                o = [o[1], o[0]]
            ax = draw(st.sampled_from([None, None, 'v', 'h']))
            if ax == 'v':      # exactly vertical / horizontal probes
                o = [q[0], o[0] if abs(o[0]) > 10 else o[1]]
            elif ax == 'h':
                o = [o[0] if abs(o[0]) > 10 else o[1], q[1]]
            return {'kind': kind, 'poly': poly, 'q': q, 'o': o}
        if kind == 'encloses_curved':
            shape = draw(st.one_of(bezier_outline_s().map(lambda b: {'segs': b}), ellipse_s(), ellipse_s()))
            segs = shape['segs']
            if 'center' in shape and draw(st.booleans()):
                # half of the ellipse closed by two lines through an integer vertex (a half disc, a rounded corner)
                v = [float(c) for c in draw(ivert)]
                a_, b_ = segs[0][1], segs[0][6]
                if v != a_ and v != b_:
                    segs = [segs[0], ['L', b_, v], ['L', v, a_]]
            q = [draw(gen.floats_in(-9.0, 9.0)), draw(gen.floats_in(-9.0, 9.0))]
            if 'center' in shape and draw(st.booleans()):
                # a query point in the ellipse's own neighbourhood (inside its bounding box when unrotated)
                q = [shape['center'][0] + draw(gen.floats_in(-1.0, 1.0)) * shape['rx'], shape['center'][1] + draw(gen.floats_in(-1.0, 1.0)) * shape['ry']]
            o = [draw(st.sampled_from([-1, 1])) * (25.0 + draw(gen.floats_in(0.0, 5.0))), draw(gen.floats_in(-20.0, 20.0))]
            ax = draw(st.sampled_from([None, None, 'v', 'h']))
            if ax == 'v':
                o = [q[0], o[0]]
            elif ax == 'h':
                o = [o[0], q[1]]
            return {'kind': kind, 'segs': segs, 'q': q, 'o': o}
        outer = draw(polygon_s(simple_only=True))
        rel = draw(st.sampled_from(['nested', 'nested', 'disjoint', 'crossing']))
        inner_shape = draw(st.sampled_from(['scaled_copy', 'small_polygon', 'small_bezier']))
        return {'kind': 'contained', 'outer': outer, 'rel': rel, 'inner_shape': inner_shape, 'f': draw(st.sampled_from([0.5, 0.25, 0.125])),
                'repr': [draw(st.sampled_from(['L', 'L', 'Q', 'C', 'mixed'])), draw(st.sampled_from(['L', 'L', 'L', 'Q', 'C', 'mixed']))],
                'at': [draw(st.integers(-9, 9)) + 0.5, draw(st.integers(-9, 9)) + 0.25], 'small': draw(polygon_s(simple_only=True)),
                'shift': [draw(st.integers(-12, 12)), draw(st.integers(-12, 12))]}
    return s()


# ---------------------------------------------------------------------------
# helpers
# ---------------------------------------------------------------------------

def poly_path(pts, rep='L'):
    """the closed polygon as a Path; rep 'Q' / 'C' / 'mixed': its straight edges written as degree-elevated Beziers (same point sets)"""
    from svgpathtools import Path, Line, QuadraticBezier, CubicBezier
    n = len(pts)
    segs = []
    for i in range(n):
        a, b = complex(pts[i][0], pts[i][1]), complex(pts[(i + 1) % n][0], pts[(i + 1) % n][1])
        k = rep if rep != 'mixed' else 'LQC'[i % 3]
        if k == 'Q':
            segs.append(QuadraticBezier(a, (a + b) / 2, b))
        elif k == 'C':
            segs.append(CubicBezier(a, a + (b - a) / 3, a + (b - a) * 2 / 3, b))
        else:
            segs.append(Line(a, b))
    return Path(*segs)


def exact_area_specs(specs):
    """exact signed area of a closed outline of L/Q/C specs with rational control points"""
    total = F(0)
    for s in specs:
        xs = [F(p[0]) for p in s[1:]]
        ys = [F(p[1]) for p in s[1:]]
        total += E.bezier_area_term(xs, ys)
    return total


def is_convex(pts):
    n = len(pts)
    sg = 0
    for i in range(n):
        a, b, c = pts[i], pts[(i + 1) % n], pts[(i + 2) % n]
        cr = (b[0] - a[0]) * (c[1] - b[1]) - (b[1] - a[1]) * (c[0] - b[0])
        if cr:
            if sg and (cr > 0) != (sg > 0):
                return False
            sg = cr
    return True


def self_intersecting(pts):
    n = len(pts)
    fp = [(F(p[0]), F(p[1])) for p in pts]
    for i in range(n):
        for j in range(i + 1, n):
            if j == i or (j + 1) % n == i or (i + 1) % n == j:
                continue
            r = E.seg_seg_proper_crossing(fp[i], fp[(i + 1) % n], fp[j], fp[(j + 1) % n])
            if r is None or r:
                return True
    return False


def apply_law(ctx, path, law, lp, want, has_arc, perimeter):
    """returns (transformed path, expected area, tolerance) or None"""
    from svgpathtools.path import transform
    ctx.count('law:' + law)
    w = float(want)
    if law == 'reversed':
        return path.reversed(), -w, 1e-9 * abs(w)
    if law == 'translated':
        z = complex(lp['z'][0], lp['z'][1])
        return path.translated(z), w, 1e-9 * abs(w) + 256 * EPS * (abs(w) + abs(z) * perimeter + abs(z) ** 2)
    o = lp.get('o')
    kwo = {} if o is None else {'origin': complex(o[0], o[1])}
    ao = 0.0 if o is None else abs(complex(o[0], o[1]))
    if o is not None:
        ctx.count('law:scaled_about_origin')
    if law == 'scaled':
        return (path.scaled(lp['s'], **kwo), w * lp['s'] ** 2,
                1e-9 * abs(w) * lp['s'] ** 2 + 256 * EPS * (1 + lp['s'] ** 2) * (ao * perimeter + ao ** 2))
    if law == 'scaled_xy':
        if has_arc:
            return None
        return (path.scaled(lp['s'], lp['sy'], **kwo), w * lp['s'] * lp['sy'],
                1e-9 * abs(w * lp['s'] * lp['sy']) + 256 * EPS * (1 + abs(lp['s'] * lp['sy']) + lp['s'] ** 2 + lp['sy'] ** 2) * (ao * perimeter + ao ** 2))
    if law == 'transform':
        a, b, c, d, e, f = lp['M']
        det = a * d - b * c
        if det == 0:
            return None
        M = np.array([[a, b, e], [c, d, f], [0, 0, 1.0]])
        sc = abs(a) + abs(b) + abs(c) + abs(d) + 1
        return transform(path, M), w * det, 1e-9 * abs(w * det) + 256 * EPS * (abs(w) * sc * sc + (abs(e) + abs(f)) * perimeter * sc + (abs(e) + abs(f)) ** 2) + 1e-12
    return path, w, 1e-9 * abs(w)


def check_rrect(case, ctx):
    """area of a rounded rectangle for chord lengths around the length of a corner arc: whatever number of chords the arcs get
    (at least one each), the inscribed polygon's area lies between the chamfered rectangle and the exact shape"""
    from svgpathtools import Path, Line, Arc
    x, y, w, h, r = case['x'], case['y'], case['w'], case['h'], case['r']
    P = lambda a, b: complex(x + a, y + b)
    segs = [Line(P(r, 0), P(w - r, 0)), Arc(P(w - r, 0), complex(r, r), 0, False, True, P(w, r)),
            Line(P(w, r), P(w, h - r)), Arc(P(w, h - r), complex(r, r), 0, False, True, P(w - r, h)),
            Line(P(w - r, h), P(r, h)), Arc(P(r, h), complex(r, r), 0, False, True, P(0, h - r)),
            Line(P(0, h - r), P(0, r)), Arc(P(0, r), complex(r, r), 0, False, True, P(r, 0))]
    path = Path(*segs)
    sign = 1.0
    if not case['ccw']:
        path = path.reversed()
        sign = -1.0
    ctx.check(path.isclosed(), 'harness/not_closed', 'constructed outline is not closed')
    arc_len = math.pi * r / 2
    chord = case['chord_factor'] * arc_len
    ctx.count('area:rounded_rect')
    if chord > 2 * arc_len:
        ctx.count('area:chord_longer_than_twice_the_arcs')
    ctx.nontrivial()
    got = float(ctx.lib('area', path.area, chord_length=chord))
    exact = w * h - (4 - math.pi) * r * r
    chamfer = w * h - 2 * r * r
    ctx.check(chamfer - 1e-9 * w * h <= sign * got <= exact + 1e-9 * w * h, 'area/rounded_rect',
              'area(chord_length=%r) = %r for a %rx%r rectangle with corner radius %r (corner arcs %.4g long): expected between %r (corners cut straight) and %r (exact)'
              % (chord, got, w, h, r, arc_len, sign * chamfer if sign > 0 else -exact, sign * exact if sign > 0 else -chamfer))


def check(case, ctx):
    k = case['kind']
    if k == 'rrect_area':
        return check_rrect(case, ctx)
    if k in ('poly_area', 'bez_area', 'ellipse_area', 'mixed_area'):
        return check_area(case, ctx)
    if k == 'encloses':
        return check_encloses(case, ctx)
    if k == 'encloses_curved':
        return check_encloses_curved(case, ctx)
    return check_contained(case, ctx)


def check_area(case, ctx):
    k = case['kind']
    chord = None
    has_arc = False
    if k == 'poly_area':
        pts = case['poly']
        if len(pts) < 3:
            ctx.discard('degenerate polygon')
        path = poly_path(pts)
        want = E.shoelace([(F(p[0]), F(p[1])) for p in pts])
        ctx.count('area:polygon')
        conv = is_convex(pts)
        si = self_intersecting(pts)
        if si:
            ctx.count('polygon:self_intersecting')
        elif not conv:
            ctx.count('polygon:concave')
        if not conv or si:
            ctx.nontrivial()
        rtol = 1e-12
    elif k == 'bez_area':
        specs = case['segs']
        for s in specs:
            if s[0] == 'L' and s[1] == s[2]:
                ctx.discard('zero-length line')
        path = gen.build_path(specs)
        want = exact_area_specs(specs)
        ctx.count('area:bezier')
        ctx.nontrivial()
        rtol = 1e-12
    else:
        e = case['ell']
        specs = e['segs']
        has_arc = True
        rmin = min(e['rx'], e['ry'])
        size = 2 * max(e['rx'], e['ry'])
        chord = 1e-2 * size
        if k == 'ellipse_area':
            path = gen.build_path(specs)
            want = math.pi * e['rx'] * e['ry'] * (1 if e['sweep'] else -1)
            ctx.count('area:ellipse')
        else:
            # first half of the ellipse, then back through the vertex v with two lines
            a, b = specs[0][1], specs[0][6]
            v = [float(case['v'][0]), float(case['v'][1])]
            if v == a or v == b:
                ctx.discard('degenerate closing vertex')
            specs = [specs[0], ['L', b, v], ['L', v, a]]
            path = gen.build_path(specs)
            c = e['center']
            half = math.pi * e['rx'] * e['ry'] / 2 * (1 if e['sweep'] else -1)
            # area = half ellipse (about the chord a-b through the centre) + triangle (b, v, a)
            tri = ((b[0] - c[0]) * (v[1] - c[1]) - (v[0] - c[0]) * (b[1] - c[1]) + (v[0] - c[0]) * (a[1] - c[1]) - (a[0] - c[0]) * (v[1] - c[1])) / 2
            want = half + tri
            ctx.count('area:mixed')
        ctx.nontrivial()
        # inscribed polygon: relative deficit of the arc part <= (h/rmin)^2/6 (+ ends)
        rtol = (chord / rmin) ** 2 / 4 + 1e-9
    perimeter = float(path.length())
    ctx.check(path.isclosed(), 'harness/not_closed', 'constructed outline is not closed')
    kw = {'chord_length': chord} if chord else {}
    got = float(ctx.lib('area', path.area, **kw))
    ref_mag = abs(float(want)) + (math.pi * case['ell']['rx'] * case['ell']['ry'] if has_arc else 0.0)
    tol = rtol * ref_mag + 64 * EPS * perimeter ** 2
    ctx.check(abs(got - float(want)) <= tol, 'area/value/%s' % k, 'area()=%r, exact %r (tol %.3g)' % (got, float(want), tol))
    if float(want) != 0 and abs(float(want)) > 10 * tol:
        ctx.check((got > 0) == (float(want) > 0), 'area/sign/%s' % k, 'area()=%r but the outline is %s' % (got, 'counter-clockwise' if want > 0 else 'clockwise'))
    law = case['law']
    if law != 'none':
        r = ctx.lib('law/' + law, apply_law, ctx, path, law, case['lp'], got, has_arc, perimeter)
        if r is not None:
            tp, wt, ltol = r
            if has_arc and law in ('scaled', 'transform', 'translated', 'reversed'):
                s2 = abs(case['lp']['s']) if law == 'scaled' else 1.0
                kw2 = {'chord_length': chord * (s2 if law == 'scaled' else 1.0)}
                ltol += 2 * rtol * ref_mag * (abs(wt) / max(abs(got), 1e-300))
            else:
                kw2 = kw
            g2 = float(ctx.lib('area/' + law, tp.area, **kw2))
            ctx.check(abs(g2 - wt) <= ltol + 64 * EPS * perimeter ** 2 * max(1.0, abs(wt) / max(abs(got), 1e-300)), 'area/law/%s/%s' % (law, k),
                      '%s: area %r -> %r, expected %r (tol %.3g)' % (law, got, g2, wt, ltol))


def probe_general_position(q, o, poly, size):
    """exact: returns the number of proper crossings of segment q-o with the closed polygon, or None if the probe is not
    in general position (touches a vertex / an edge end, is collinear with an edge, or passes a vertex within 1e-6*size)"""
    fq, fo = (F(q[0]), F(q[1])), (F(o[0]), F(o[1]))
    fp = [(F(p[0]), F(p[1])) for p in poly]
    dx, dy = fo[0] - fq[0], fo[1] - fq[1]
    L2 = dx * dx + dy * dy
    lim2 = F(size) ** 2 * F(1, 10 ** 12)
    for v in fp:
        cr = dx * (v[1] - fq[1]) - dy * (v[0] - fq[0])
        # distance from v to the probe's line, only relevant if the foot lies within the probe (extended a little)
        t = (dx * (v[0] - fq[0]) + dy * (v[1] - fq[1]))
        if -L2 / 100 <= t <= L2 * 101 / 100 and cr * cr <= lim2 * L2:
            return None
    count = 0
    n = len(fp)
    params = []
    for i in range(n):
        r = E.seg_seg_proper_crossing(fq, fo, fp[i], fp[(i + 1) % n])
        if r is None:
            return None
        if r:
            count += 1
            a, b = fp[i], fp[(i + 1) % n]
            ex, ey = b[0] - a[0], b[1] - a[1]
            den = dx * ey - dy * ex
            params.append(((a[0] - fq[0]) * ey - (a[1] - fq[1]) * ex) / den)
    # two crossings at (nearly) the same point of the probe (overlapping or touching edges) are not general position:
    # Path.intersect merges results that coincide
    params.sort()
    for u, v in zip(params, params[1:]):
        if (v - u) ** 2 * L2 <= lim2 * 10 ** 4:
            return None
    return count


def check_encloses(case, ctx):
    from svgpathtools.path import path_encloses_pt
    poly = case['poly']
    if len(poly) < 3:
        ctx.discard('degenerate polygon')
    q, o = case['q'], case['o']
    xs = [p[0] for p in poly]
    ys = [p[1] for p in poly]
    if min(xs) <= o[0] <= max(xs) and min(ys) <= o[1] <= max(ys):
        ctx.discard('outside point inside the bounding box')
    size = max(max(xs) - min(xs), max(ys) - min(ys), 1)
    n = probe_general_position(q, o, poly, size)
    if n is None:
        ctx.discard('probe not in general position')
    inside = E.point_in_polygon_evenodd((F(q[0]), F(q[1])), [(F(p[0]), F(p[1])) for p in poly])
    if inside is None:
        ctx.discard('query point on the boundary')
    if (n % 2 == 1) != inside:
        raise RuntimeError('harness: crossing parity %d disagrees with the even-odd test %r' % (n, inside))
    ctx.count('encloses:polygon')
    if q[0] == o[0] or q[1] == o[1]:
        ctx.count('probe:axis_parallel')
    if n >= 2 or not is_convex(poly):
        ctx.nontrivial()
    path = poly_path(poly)
    got = ctx.lib('path_encloses_pt', path_encloses_pt, complex(q[0], q[1]), complex(o[0], o[1]), path)
    ctx.check(bool(got) == inside, 'encloses/polygon/%s' % ('crossings>=2' if n >= 2 else 'crossings<2'),
              'path_encloses_pt(%r, %r, polygon %r) = %r, but the probe crosses the boundary %d times (even-odd: %r)' % (q, o, poly, got, n, inside))


def flatten(specs, per=800):
    pts = []
    for s in specs:
        p = X.spec_eval(s, np.linspace(0, 1, per + 1))
        pts.extend(p[:-1])
    return np.array(pts)


def check_encloses_curved(case, ctx):
    from svgpathtools.path import path_encloses_pt
    specs = case['segs']
    for s in specs:
        if s[0] == 'L' and s[1] == s[2]:
            ctx.discard('zero-length line')
        if s[0] in 'QC' and len({tuple(p) for p in s[1:]}) < 2:
            ctx.discard('point-like (nodal) Bezier segment: the line/Bezier solver refuses it by design')
    q, o = complex(*case['q']), complex(*case['o'])
    poly = flatten(specs)
    size = max(poly.real.max() - poly.real.min(), poly.imag.max() - poly.imag.min())
    if np.abs(poly - q).min() < 2e-3 * size + 2 * np.abs(np.diff(poly)).max():
        ctx.discard('query point close to the boundary')
    if poly.real.min() <= o.real <= poly.real.max() and poly.imag.min() <= o.imag <= poly.imag.max():
        ctx.discard('outside point inside the bounding box')
    # crossings of the probe with the flattening; general position: no flattening vertex near the probe line within the probe,
    # crossing angles not shallow
    a, b = poly, np.roll(poly, -1)
    d = o - q
    da = b - a
    den = d.real * da.imag - d.imag * da.real
    w = a - q
    # each vertex is assigned to one side of the probe line (>= 0 counts as the positive side), so a crossing that falls
    # exactly on a vertex of the flattening is counted once
    side_a = (d.real * (a - q).imag - d.imag * (a - q).real) >= 0
    side_b = np.roll(side_a, -1)
    with np.errstate(divide='ignore', invalid='ignore'):
        s_ = (w.real * da.imag - w.imag * da.real) / den
    hit = (side_a != side_b) & (den != 0) & (s_ > 0) & (s_ < 1)
    # grazing without crossing: a run of outline vertices hugging the probe (closer than 2e-3*size, within the probe's
    # extent) whose two outer neighbours lie on the same side
    sd = (d.real * (a - q).imag - d.imag * (a - q).real) / abs(d)
    along = ((a - q).real * d.real + (a - q).imag * d.imag) / abs(d) ** 2
    close = (np.abs(sd) < 2e-3 * size) & (along > -0.01) & (along < 1.01)
    if close.all():
        ctx.discard('outline hugs the probe')
    if close.any():
        m = len(close)
        start = int(np.argmin(close))            # a vertex that is not close
        idx = [(start + k) % m for k in range(m)]
        k = 0
        while k < m:
            if close[idx[k]]:
                j = k
                while j < m and close[idx[j]]:
                    j += 1
                before, after = idx[k - 1], idx[j % m]
                if (sd[before] >= 0) == (sd[after] >= 0):
                    ctx.discard('probe grazes the boundary')
                k = j
            else:
                k += 1
    sin_ang = np.abs(den) / (abs(d) * np.abs(da) + 1e-300)
    if np.any(hit & (sin_ang < 0.05)):
        ctx.discard('probe grazes the boundary')
    # joints of the outline near the probe
    for sp in specs:
        j = X.C(sp[1])
        tt = ((j - q).real * d.real + (j - q).imag * d.imag) / abs(d) ** 2
        dist = abs((j - q).real * d.imag - (j - q).imag * d.real) / abs(d)
        if -0.01 <= tt <= 1.01 and dist < 5e-3 * size:
            ctx.discard('probe passes close to a joint')
    n = int(hit.sum())
    inside = (n % 2 == 1)
    tpar = np.sort(s_[hit])
    if len(tpar) > 1 and np.min(np.diff(tpar)) * abs(d) < 1e-3 * size:
        ctx.discard('two crossings at (nearly) the same point')
    ctx.count('encloses:curved')
    if q.real == o.real or q.imag == o.imag:
        ctx.count('probe:axis_parallel_curved')
        if all(sp[0] == 'A' and sp[3] % 90 == 0 and sp[2][0] != sp[2][1] for sp in specs) and inside:
            ctx.count('probe:axis_parallel_from_inside_axis_aligned_ellipse')
    ctx.nontrivial()
    path = gen.build_path(specs)
    if not path.isclosed():
        ctx.discard('outline not closed')
    got = ctx.lib('path_encloses_pt', path_encloses_pt, q, o, path)
    ctx.check(bool(got) == inside, 'encloses/curved', 'path_encloses_pt(%r, %r) = %r, but the probe crosses the (flattened) outline %d times' % (q, o, got, n))


def check_contained(case, ctx):
    outer = case['outer']
    if len(outer) < 3:
        ctx.discard('degenerate polygon')
    fo = [(F(p[0]), F(p[1])) for p in outer]
    xs = [p[0] for p in outer]
    ys = [p[1] for p in outer]
    size = max(max(xs) - min(xs), max(ys) - min(ys), 1)
    rel = case['rel']
    at = case['at']
    f = case['f']
    # build the inner outline as a list of float vertices (polygon) or Bezier specs
    small = case['small']
    if len(small) < 3:
        ctx.discard('degenerate polygon')
    sx = [p[0] for p in small]
    sy = [p[1] for p in small]
    ssize = max(max(sx) - min(sx), max(sy) - min(sy), 1)
    if case['inner_shape'] == 'scaled_copy':
        base = [[at[0] + f * (p[0] - at[0]), at[1] + f * (p[1] - at[1])] for p in outer]
    else:
        g = f * size / (4.0 * ssize)
        base = [[at[0] + g * p[0], at[1] + g * p[1]] for p in small]
    if rel == 'disjoint':
        sh = [3 * size + abs(case['shift'][0]), 2 * size + abs(case['shift'][1])]
        base = [[p[0] + sh[0], p[1] + sh[1]] for p in base]
    elif rel == 'crossing':
        base = [[p[0] + case['shift'][0] * 0.5, p[1] + case['shift'][1] * 0.5] for p in base]
    fi = [(F(p[0]), F(p[1])) for p in base]
    # exact relation between the two polygons
    crossing = False
    for i in range(len(fi)):
        for j in range(len(fo)):
            r = E.seg_seg_proper_crossing(fi[i], fi[(i + 1) % len(fi)], fo[j], fo[(j + 1) % len(fo)])
            if r is None:
                ctx.discard('outlines touch (not general position)')
            crossing = crossing or r
    start_inside = E.point_in_polygon_evenodd(fi[0], fo)
    if start_inside is None:
        ctx.discard('inner start on the outer boundary')
    expected = (not crossing) and start_inside
    # the implied probe: inner start -> (xmin-1, ymin-1) must be in general position w.r.t. the outer polygon
    probe_o = [min(xs) - 1, min(ys) - 1]
    in_bbox = min(xs) <= base[0][0] <= max(xs) and min(ys) <= base[0][1] <= max(ys)
    if not crossing and in_bbox:
        n = probe_general_position(base[0], probe_o, outer, size)
        if n is None:
            ctx.discard('implied probe not in general position')
    cls = 'crossing' if crossing else ('nested' if expected else 'disjoint')
    ctx.count('contained:' + cls)
    ctx.nontrivial()
    from svgpathtools import Path, QuadraticBezier
    rep = case.get('repr', ['L', 'L'])
    opath = poly_path(outer, rep[1])
    if rep != ['L', 'L']:
        ctx.count('contained:edges_as_beziers')
    if case['inner_shape'] == 'small_bezier' and not crossing:
        # replace every edge by a quadratic bulging slightly (stays within the polygon's neighbourhood): only used when the
        # relation is decided by position, i.e. nested deep inside or far away
        n = len(base)
        segs = []
        for i in range(n):
            a, b = complex(*base[i]), complex(*base[(i + 1) % n])
            segs.append(QuadraticBezier(a, (a + b) / 2 + 0.05j * (b - a), b))
        ipath = Path(*segs)
        # the bulge may create crossings with the outer boundary if the inner polygon is close to it: skip then
        pts = np.array([s.point(t) for s in segs for t in np.linspace(0, 1, 9)])
        fl = np.array([complex(p[0], p[1]) for p in outer])

        def dist_to_edges(z):
            best = float('inf')
            for u, v in zip(fl, np.roll(fl, -1)):
                e = v - u
                t = max(0.0, min(1.0, ((z - u).real * e.real + (z - u).imag * e.imag) / (abs(e) ** 2 or 1.0)))
                best = min(best, abs(z - (u + t * e)))
            return best
        dmin = min(dist_to_edges(p) for p in pts)
        if dmin < 0.2 * size * f:
            ipath = poly_path(base, rep[0])
    else:
        ipath = poly_path(base, rep[0])
    if ipath == opath:
        ctx.discard('identical paths')
    got = ctx.lib('is_contained_by', ipath.is_contained_by, opath)
    ctx.check(bool(got) == expected, 'contained/%s' % cls, 'inner.is_contained_by(outer) = %r, expected %r (outlines %s, inner start %s)'
              % (got, expected, 'cross' if crossing else 'do not cross', 'inside' if start_inside else 'outside'))
