"""C01 -- Path.d() output parses back to the same path, under every option."""
import math

from hypothesis import strategies as st

from vp import gen
from vp.ref import svgpath_ref as R

ID = 'C01'
RULE = ("paths of 1-3 subpaths x 1-5 segments (Line/Quadratic/Cubic/Arc), open / closed by a line / closed by a curve / "
        "closed up to an ulp gap / passing through their own start point, smooth joints constructed the parser's way, "
        "the serialiser's way and +-1 ulp, control1==start after a non-curve, coordinate classes nice/float/tiny/huge/"
        "exponent-repr; ALL 8 (useSandT, use_closed_attrib, rel) combinations are evaluated on every path. "
        "Non-trivial = >=2 segments and (Z emitted or S/T emitted or >1 subpath or exponent-format number in the string "
        "or auto-enlarged arc); distinct by hash of (segments).")
ASSUMPTIONS = ["relative form: coordinates beyond 1e150 are not generated (emitted differences overflow, not rounding)",
               "arcs are generated with coordinates in 1e-100..1e100 (Arc construction squares them)",
               "relative-form tolerance: running bound sum_k 4*eps*(|start_k| + max|pt-start_k|) per component"]
# coverage-guided second engine (atheris), thorough tier only: (shards, libFuzzer runs per shard)
FUZZ = {'thorough': (16, 40000)}
CONFIGS = ['scipy']
BUDGET = {'quick': 24000, 'thorough': 300000}
REQUIRED = ['derived:scaled_neg', 'derived:reversed', 'Z_emitted', 'ST_emitted', 'multi_subpath', 'exp_format', 'closed_by_curve', 'closed_by_line',
            'enlarged_arc', 'through_start']

EPS = 2.0 ** -52


def num_class(cls):
    f = gen.floats_in
    if cls == 'nice':
        return st.one_of(gen.small_ints, gen.halves, gen.decimals)
    if cls == 'float':
        return st.one_of(f(-100.0, 100.0), f(-1.0, 1.0))
    if cls == 'tiny':
        return st.builds(lambda m, e, s: s * m * 10.0 ** e, f(1.0, 10.0), st.integers(-300, -5), st.sampled_from([1, -1]))
    if cls == 'huge':
        return st.builds(lambda m, e, s: s * m * 10.0 ** e, f(1.0, 10.0), st.integers(5, 149), st.sampled_from([1, -1]))
    if cls == 'huger':
        return st.builds(lambda m, e, s: s * m * 10.0 ** e, f(1.0, 1.7), st.integers(150, 307), st.sampled_from([1, -1]))
    if cls == 'exp':
        return st.sampled_from([1e-05, 1e+16, 1.5e+300, 2.5e-07, 1e22, 1.2345e+17, 5e-324, 1e-10, -1e+20, 3e-05, 1e16, 123456789012345680.0])
    if cls == 'mixed':
        return st.one_of(num_class('nice'), num_class('float'), num_class('tiny'), num_class('huge'), num_class('exp'))
    raise ValueError(cls)


def _ulp_shift(v, k):
    return gen.nextafter_k(v, k)


@st.composite
def path_case(draw):
    cls = draw(st.sampled_from(['nice', 'nice', 'float', 'float', 'tiny', 'huge', 'huger', 'exp', 'mixed', 'scaled']))
    rscale = 1.0
    if cls == 'scaled':
        # a whole drawing at one (possibly extreme) scale, arcs included
        rscale = 10.0 ** draw(st.one_of(st.integers(-60, 60), st.integers(-12, 12)))
        num = st.one_of(gen.small_ints, gen.halves, gen.decimals, gen.floats_in(-10.0, 10.0)).map(lambda v: v * rscale)
    else:
        num = num_class(cls)
    arc_ok = cls in ('nice', 'float', 'scaled')
    arc_num = num if arc_ok else num_class('float')
    pt = st.tuples(num, num).map(list)
    apt = st.tuples(arc_num, arc_num).map(list)
    nsub = draw(st.sampled_from([1, 1, 1, 2, 3]))
    segs = []
    for si in range(nsub):
        start = draw(pt)
        n = draw(st.integers(1, 5))
        closing = draw(st.sampled_from(['open', 'open', 'line', 'curve', 'curve', 'gap', 'through']))
        cur = start
        prev = None
        for i in range(n):
            last = i == n - 1
            kind = draw(st.sampled_from('LLQQCCCA' if arc_ok else 'LLQQCCCAx'[:8]))
            if kind == 'A' and not arc_ok:
                # arcs in the extreme classes use moderate coordinates of their own
                kind = draw(st.sampled_from('LQC'))
            if last and closing == 'curve' and n >= 2 and kind == 'L':
                kind = draw(st.sampled_from('QC' + ('A' if arc_ok else '')))
            end = draw(pt)
            if last and closing == 'curve' and n >= 2:
                end = list(start)
            elif last and closing == 'gap' and n >= 2:
                end = [_ulp_shift(start[0], draw(st.sampled_from([-1, 1]))), start[1]]
            elif closing == 'through' and i == n // 2 and 0 < i < n - 1:
                end = list(start)
            if end == cur:
                if kind in ('L', 'A'):
                    end = [cur[0] + (1.0 if abs(cur[0]) < 1e15 else abs(cur[0])), cur[1]]
            if kind == 'L':
                seg = ['L', cur, end]
            elif kind == 'Q':
                c = draw(pt)
                mode = draw(st.integers(0, 5))
                if prev is not None and prev[0] == 'Q' and mode <= 2:
                    pc = prev[2]
                    if mode == 0:      # parser's way: (cur+cur) - c
                        c = [(cur[0] + cur[0]) - pc[0], (cur[1] + cur[1]) - pc[1]]
                    elif mode == 1:    # serialiser's way: cur + (cur - c)
                        c = [cur[0] + (cur[0] - pc[0]), cur[1] + (cur[1] - pc[1])]
                    else:
                        c = [_ulp_shift((cur[0] + cur[0]) - pc[0], draw(st.sampled_from([-1, 1]))), (cur[1] + cur[1]) - pc[1]]
                elif (prev is None or prev[0] != 'Q') and mode <= 1:
                    c = list(cur)
                seg = ['Q', cur, c, end]
            elif kind == 'C':
                c1, c2 = draw(pt), draw(pt)
                mode = draw(st.integers(0, 5))
                if prev is not None and prev[0] == 'C' and mode <= 2:
                    pc = prev[3]
                    if mode == 0:
                        c1 = [(cur[0] + cur[0]) - pc[0], (cur[1] + cur[1]) - pc[1]]
                    elif mode == 1:
                        c1 = [cur[0] + (cur[0] - pc[0]), cur[1] + (cur[1] - pc[1])]
                    else:
                        c1 = [(cur[0] + cur[0]) - pc[0], _ulp_shift((cur[1] + cur[1]) - pc[1], draw(st.sampled_from([-1, 1])))]
                elif (prev is None or prev[0] != 'C') and mode <= 1:
                    c1 = list(cur)
                seg = ['C', cur, c1, c2, end]
            else:
                big = draw(st.booleans())
                d = math.hypot(end[0] - cur[0], end[1] - cur[1])
                if big:
                    rx = d * draw(gen.floats_in(0.6, 5.0)) + 1e-3 * rscale
                    ry = rx * draw(gen.floats_in(0.3, 3.0))
                else:
                    rx = draw(st.one_of(st.sampled_from([1.0, 0.5, 2.0, 10.0]), gen.floats_in(0.01, 50.0))) * rscale
                    ry = draw(st.one_of(st.just(rx), gen.floats_in(0.01, 50.0).map(lambda v: v * rscale)))
                rot = draw(gen.rotations)
                seg = ['A', cur, [rx, ry], rot, draw(st.integers(0, 1)), draw(st.integers(0, 1)), end]
            segs.append(seg)
            prev = seg
            cur = end
        if closing == 'line' and cur != start:
            segs.append(['L', cur, list(start)])
    return {'cls': cls, 'segs': segs, 'derive': draw(st.sampled_from(['none', 'none', 'none', 'scaled_neg', 'scaled', 'rotated', 'reversed']))}


def strategy(tier, config):
    return path_case()


def _finite(segs):
    for s in segs:
        for p in gen.spec_points(s):
            if not (math.isfinite(p[0]) and math.isfinite(p[1])):
                return False
    return True


def _seg_fields(seg):
    """(class name, flags, [points], radius or None, rotation or None)"""
    from svgpathtools import Line, QuadraticBezier, CubicBezier, Arc
    if isinstance(seg, Arc):
        return ('Arc', (bool(seg.large_arc), bool(seg.sweep)), [seg.start, seg.end], seg.radius, seg.rotation)
    return (type(seg).__name__, None, list(seg.bpoints()), None, None)


def check(case, ctx):
    from svgpathtools import parse_path, Path, Arc, Line
    specs = case['segs']
    if not _finite(specs):
        ctx.discard('non-finite')
    for s in specs:
        if s[0] in 'LA' and s[1] == s[-1]:
            ctx.discard('zero-length line/arc')
    p = ctx.lib('build', gen.build_path, specs)
    enlarged = any(s[0] == 'A' and (abs(seg.radius.real) != abs(s[2][0]) or abs(seg.radius.imag) != abs(s[2][1]))
                   for s, seg in zip(specs, p))
    der = case.get('derive', 'none')
    if der != 'none':
        # the path that is serialised is itself the product of an operation (a path is a path however it came about); from here
        # on everything refers to the segments that object holds
        p = ctx.lib(der, {'scaled_neg': lambda: p.scaled(-1.5), 'scaled': lambda: p.scaled(2.0), 'rotated': lambda: p.rotated(180, 0j),
                          'reversed': lambda: p.reversed()}[der])
        specs = [gen.seg_spec_of(sg) for sg in p]
        ctx.count('derived:' + der)
        if not _finite(specs) or any(sp[0] in 'LA' and sp[1] == sp[-1] for sp in specs):
            ctx.discard('derived path degenerate')
    maxabs = max(max(abs(q[0]), abs(q[1])) for s in specs for q in gen.spec_points(s))
    nsub = 1 + sum(1 for a, b in zip(specs, specs[1:]) if a[-1] != b[1])
    closed_whole = nsub == 1 and specs[0][1] == specs[-1][-1]
    if closed_whole:
        ctx.count('closed_by_line' if specs[-1][0] == 'L' else 'closed_by_curve')
    if any(s[-1] == specs[0][1] for s in specs[:-1]):
        ctx.count('through_start')
    if enlarged:
        ctx.count('enlarged_arc')
    if nsub > 1:
        ctx.count('multi_subpath')
    ctx.count('class:' + case['cls'])
    interesting = enlarged or nsub > 1
    # relative form: an Arc/Line whose chord is below the accumulated rounding bound of the emitted differences
    # parses to a zero-length segment (outside the property's domain: 'no zero-length Line segments')
    chord_below_rounding = False
    acc = 0.0
    for sp in specs:
        pts = [gen.C(z) for z in gen.spec_points(sp)]
        acc += 4 * EPS * (abs(pts[0].real) + abs(pts[0].imag) + max(abs(z - pts[0]) for z in pts) * 2)
        if sp[0] in 'LA' and abs(pts[-1] - pts[0]) <= 8 * acc:
            chord_below_rounding = True
    for useSandT in (False, True):
        for use_closed in (False, True):
            for rel in (False, True):
                if rel and maxabs > 1e150:
                    ctx.count('rel_skipped_overflow_range')
                    continue
                if rel and chord_below_rounding:
                    ctx.count('rel_skipped_chord_below_rounding')
                    continue
                opt = 'S%d_Z%d_rel%d' % (useSandT, use_closed, rel)
                d = ctx.lib('d/' + opt, p.d, useSandT=useSandT, use_closed_attrib=use_closed, rel=rel)
                try:
                    R.tokenize(d)
                except R.PathSyntaxError as e:
                    ctx.fail('ungrammatical/' + opt, 'd() produced an ungrammatical string %r: %s' % (d[:200], e), d=d)
                dl = d.upper()
                hasZ = 'Z' in dl
                hasST = ('S' in dl) or ('T' in dl)
                hasExp = 'E' in dl
                if hasZ:
                    ctx.count('Z_emitted')
                if hasST:
                    ctx.count('ST_emitted')
                if hasExp:
                    ctx.count('exp_format')
                if len(specs) >= 2 and (interesting or hasZ or hasST or hasExp):
                    ctx.nontrivial(key=specs, sample={'d': d[:600], 'options': opt})
                q = ctx.lib('parse/' + opt, parse_path, d)
                compare(ctx, p, q, d, opt, rel, hasZ)


def compare(ctx, p, q, d, opt, rel, hasZ):
    from svgpathtools import Line
    n = len(p)
    extra = None
    # running rounding bound of the relative form (per component), accumulated over the segments
    tols = []
    acc = 0.0
    for seg in p:
        pts = _seg_fields(seg)[2]
        acc += 4 * EPS * (abs(pts[0].real) + abs(pts[0].imag) + max(abs(z - pts[0]) for z in pts) * 2)
        tols.append(acc)
    absorbed = False
    if len(q) != n:
        if rel and hasZ and len(q) == n + 1 and isinstance(q[-1], Line) and not isinstance(p[-1], Line):
            extra = q[-1]
        elif (rel and hasZ and len(q) == n - 1 and isinstance(p[-1], Line)
              and abs(p[-1].end - p[-1].start) <= 4 * tols[-1]):
            # the closing Line that Z stands for is shorter than the rounding bound of the emitted differences:
            # the parser's pen is already at the subpath start (within rounding) and Z adds nothing
            absorbed = True
            ctx.count('rel_closing_line_within_rounding_absorbed')
            n = n - 1
        else:
            kinds_p = ''.join(type(s).__name__[0] for s in p)
            kinds_q = ''.join(type(s).__name__[0] for s in q)
            lost = 'dropped' if len(q) < n else 'added'
            ctx.fail('segment_%s/%s/last=%s' % (lost, 'Z' if hasZ else 'noZ', type(p[-1]).__name__),
                     'd(%s)=%r parses to %d segments (%s), original has %d (%s)' % (opt, d[:300], len(q), kinds_q, n, kinds_p), d=d)
    tol = 0.0
    for k in range(n):
        a, b = p[k], q[k]
        fa, fb = _seg_fields(a), _seg_fields(b)
        if fa[0] != fb[0]:
            ctx.fail('kind_changed/%s->%s' % (fa[0], fb[0]), 'segment %d: %r became %r in d(%s)=%r' % (k, a, b, opt, d[:300]), d=d)
        if fa[1] != fb[1]:
            ctx.fail('arc_flags', 'segment %d: flags %r became %r (%s)' % (k, fa[1], fb[1], opt), d=d)
        st_used = ('S' in d.upper() or 'T' in d.upper())
        if rel:
            tol = tols[k]
            tol_k = tol * (3 if st_used else 1)
        else:
            tol_k = 0.0
        for j, (za, zb) in enumerate(zip(fa[2], fb[2])):
            za, zb = complex(za), complex(zb)
            if not (abs(za.real - zb.real) <= tol_k and abs(za.imag - zb.imag) <= tol_k):
                site = 'rel' if rel else 'abs'
                why = 'reflected_control' if (st_used and j == 1 and fa[0] in ('CubicBezier', 'QuadraticBezier')) else 'point'
                ctx.fail('%s/%s/%s' % (site, why, fa[0]),
                         'segment %d point %d: %r became %r (tol %.3g) in d(%s)=%r' % (k, j, za, zb, tol_k, opt, d[:300]), d=d)
        if fa[0] == 'Arc':
            ra, rb = fa[3], fb[3]
            rt = 1e-12 * abs(ra) + tol_k
            if not (abs(ra.real - rb.real) <= rt and abs(ra.imag - rb.imag) <= rt):
                ctx.fail('arc_radius', 'segment %d radius %r became %r (%s)' % (k, ra, rb, opt), d=d)
            if not (fa[4] == fb[4]):
                ctx.fail('arc_rotation', 'segment %d rotation %r became %r (%s)' % (k, fa[4], fb[4], opt), d=d)
        elif not rel:
            if not (a == b):
                ctx.fail('abs/not_equal/%s' % fa[0], 'segment %d: %r != %r (%s)' % (k, a, b, opt), d=d)
    if extra is not None:
        ln = abs(extra.end - extra.start)
        if not (ln <= tol * 4 + 0.0):
            ctx.fail('rel/closing_line_too_long', 'extra closing line %r has length %.3g > rounding bound %.3g (%s)' % (extra, ln, tol * 4, opt), d=d)
        ctx.count('rel_closing_line_added')
    if not rel and extra is None:
        # absolute form: library equality of the whole path (arcs compared above with the radius tolerance)
        from svgpathtools import Arc
        if not any(isinstance(s, Arc) for s in p) and not (p == q):
            ctx.fail('abs/path_not_equal', 'parse_path(d(%s)) != original; d=%r' % (opt, d[:300]), d=d)
