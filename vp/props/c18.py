"""C18 -- Paths written to SVG (wsvg, Document) are read back unchanged, with attributes."""
import math
import os
import shutil
import tempfile

import numpy as np
from hypothesis import strategies as st

from vp import gen
from vp.ref import svgdoc_ref as D

ID = 'C18'
RULE = ("(a) wsvg round trips: lists of 1-6 paths (any segment mix, several subpaths), per-path attribute dictionaries (real SVG "
        "attribute names incl. hyphenated ones and id; values without leading/trailing/double whitespace), svg-level attributes "
        "(width, height, viewBox, preserveAspectRatio), file names in fresh temporary directories incl. nested not-yet-existing "
        "ones; read back with svg2paths(return_svg_attributes=True), Document.paths and SaxDocument. (b) Document histories as "
        "data: new or loaded Document -> add_group (with transforms, nested) / add_path (to the root, to a group element, to a "
        "nested name list) -> paths() -> save -> reload with each reader -> continue. Oracle: same number and order of paths, "
        "each equal to the original under the absolute d-string round-trip relation (through the group transforms for "
        "Document/SaxDocument), supplied attributes among those returned. Non-trivial = >= 2 paths with >= 1 attribute each, or "
        "a history with an add after a query and a reload; distinct by case hash.")
ASSUMPTIONS = ["Document.add_path is given string attribute values (ElementTree serialises strings only); wsvg also real numbers", "a style attribute only sets properties that no other supplied attribute sets (SaxDocument merges style over attributes, as CSS precedence has it)", "attribute values avoid XML-significant characters and whitespace that XML attribute normalisation may change",
               "arcs that had been auto-enlarged may differ in radius by 1e-12 relative after the round trip (C01)",
               "files are written under a fresh temporary directory that the check removes"]
RULE += ' Also: Attribute dictionaries may carry a stale d entry (as svg2paths hands them out).'   # added after the seeded-change rounds (DESIGN.md section 10)
CONFIGS = ['scipy']
BUDGET = {'quick': 3000, 'thorough': 40000}
REQUIRED = ['attributes_with_stale_d', 'wsvg', 'history', 'attr:hyphenated', 'svg_attributes', 'nested_directory', 'reader:svg2paths', 'reader:Document', 'reader:SaxDocument',
            'history:loaded_document', 'history:add_to_nested_names', 'history:add_to_group_element', 'history:reload']
CASE_TIMEOUT = 60

ATTR_KEYS = ['stroke', 'fill', 'stroke-width', 'opacity', 'class', 'stroke-dasharray', 'stroke-linecap', 'fill-opacity', 'id', 'style']
val_s = st.text(alphabet='abcdefghijklmnopqrstuvwxyzABCDEFGHIJKLMNOPQRSTUVWXYZ0123456789#.-_,()%', min_size=1, max_size=12)
name_s = st.text(alphabet='abcdefghijklmnopqrstuvwxyz0123456789_-', min_size=1, max_size=8)


@st.composite
def path_specs_s(draw):
    specs = draw(gen.chain_specs(min_size=1, max_size=4, scale=draw(st.sampled_from([1.0, 1.0, 1e2, 1e-2])), closed=draw(st.booleans()),
                                 break_prob=draw(st.sampled_from([0, 0, 30]))))
    return specs


@st.composite
def attrs_s(draw, uid, strings_only=False):
    keys = draw(st.lists(st.sampled_from(ATTR_KEYS), min_size=0, max_size=4, unique=True))
    d = {}
    for k in keys:
        if k == 'id':
            d[k] = 'p%d_%s' % (uid, draw(name_s))
        elif k == 'style':
            d[k] = 'stroke-linejoin:%s;stroke-miterlimit:4' % draw(st.sampled_from(['round', 'bevel', 'miter']))   # (properties no attribute of the pool also sets)
        elif k in ('stroke-width', 'opacity', 'fill-opacity'):
            # strings and real numbers (zero included): wsvg accepts both
            d[k] = draw(st.sampled_from(['1', '0.5', '2.25', '3'] + ([] if strings_only else [0, 1, 0.5, 0.0, 2])))
        else:
            d[k] = draw(val_s)
    return d


@st.composite
def wsvg_case(draw):
    n = draw(st.integers(1, 6))
    paths = [draw(path_specs_s()) for _ in range(n)]
    use_attrs = draw(st.booleans())
    attrs = [draw(attrs_s(i)) for i in range(n)] if use_attrs else None
    sva = None
    if draw(st.booleans()):
        sva = {}
        for k in draw(st.lists(st.sampled_from(['width', 'height', 'viewBox', 'preserveAspectRatio', 'id', 'stroke', 'class']), min_size=1, max_size=5, unique=True)):
            sva[k] = {'width': draw(st.sampled_from(['100', '50%', '12cm', '640px'])), 'height': draw(st.sampled_from(['100', '75%', '8cm'])),
                      'viewBox': draw(st.sampled_from(['0 0 100 100', '-10 -10 20 20', '0 0 640 480'])),
                      'preserveAspectRatio': draw(st.sampled_from(['xMidYMid meet', 'none', 'xMinYMax slice'])),
                      'id': 'drawing', 'stroke': 'blue', 'class': 'sheet'}[k]
    sub = draw(st.lists(name_s, min_size=0, max_size=2))
    return {'kind': 'wsvg', 'paths': paths, 'attrs': attrs, 'svg_attrs': sva, 'subdirs': sub, 'fname': draw(name_s) + '.svg',
            'stale_d': bool(attrs) and draw(st.integers(0, 4)) == 0}


@st.composite
def history_case(draw):
    start = draw(st.sampled_from(['new', 'new', 'loaded']))
    init_paths = [draw(path_specs_s()) for _ in range(draw(st.integers(1, 3)))] if start == 'loaded' else []
    ops = []
    uid = [0]
    for _ in range(draw(st.integers(2, 10))):
        k = draw(st.sampled_from(['add_group', 'add_group_nested', 'add_path_root', 'add_path_group', 'add_path_names', 'paths', 'reload']))
        uid[0] += 1
        if k in ('add_group', 'add_group_nested'):
            tf = draw(st.lists(st.sampled_from([['translate', 3.0, -2.0], ['scale', 2.0], ['rotate', 90.0], ['scale', 1.0, -1.0], ['translate', 0.5],
                                                ['matrix', 1.0, 0.5, 0.0, 1.0, 2.0, 0.0]]), min_size=0, max_size=2))
            ops.append([k, 'g%d' % uid[0], tf, draw(st.integers(0, 5))])
        elif k == 'add_path_root':
            ops.append([k, draw(path_specs_s()), draw(attrs_s(uid[0], True))])
        elif k == 'add_path_group':
            ops.append([k, draw(path_specs_s()), draw(attrs_s(uid[0], True)), draw(st.integers(0, 5))])
        elif k == 'add_path_names':
            ops.append([k, draw(path_specs_s()), draw(attrs_s(uid[0], True)), draw(st.lists(st.sampled_from(['layer1', 'layer2', 'inner', 'deep']), min_size=1, max_size=3))])
        else:
            ops.append([k])
    ops.append(['reload'])
    return {'kind': 'history', 'start': start, 'init': init_paths, 'ops': ops}


def strategy(tier, config):
    return st.one_of(wsvg_case(), wsvg_case(), history_case())


# ---------------------------------------------------------------------------

def admissible_path(specs):
    for s in specs:
        if s[0] in 'LA' and s[1] == s[-1]:
            return False
        if s[0] == 'A' and (s[2][0] == 0 or s[2][1] == 0):
            return False
        if s[0] == 'A':
            from vp.ref import arc_ref
            L = arc_ref.lam(s[1], s[2][0], s[2][1], s[3], s[6])
            if not (1e-12 < L < 1e12):
                return False      # chord/radius ratio beyond 1e6: Arc construction itself is C04's finding KF01
    return True


def same_path(ctx, where, orig, got, M=None):
    """the absolute-form round-trip relation of C01, optionally through the matrix M"""
    from svgpathtools import Arc
    ctx.check(len(orig) == len(got), where + '/segment_count', '%s: %d segments came back as %d' % (where, len(orig), len(got)))
    for a, b in zip(orig, got):
        ctx.check(type(a) is type(b), where + '/segment_type', '%s: %s came back as %s' % (where, type(a).__name__, type(b).__name__))
        if M is None:
            if isinstance(a, Arc):
                ok = (a.start == b.start and a.end == b.end and a.rotation == b.rotation and a.large_arc == b.large_arc and a.sweep == b.sweep
                      and abs(a.radius - b.radius) <= 1e-12 * abs(a.radius))
            else:
                ok = a == b
            ctx.check(ok, where + '/segment_changed', '%s: %r came back as %r' % (where, a, b))
        else:
            size = max(abs(a.point(0.5) - a.start), abs(a.end - a.start), 1e-9)
            sc = max(abs(M[0][0]), abs(M[0][1]), abs(M[1][0]), abs(M[1][1]), 1.0)
            for t in (0.0, 0.3, 0.5, 0.8, 1.0):
                want = D.apply(M, complex(a.point(t)))
                have = complex(b.point(t))
                atol = (1e-6 if isinstance(a, Arc) else 1e-9) * (size * sc + abs(want)) + 1e-12
                if isinstance(a, Arc):
                    # very eccentric / exactly fitting arcs are only accurate to ~2e-4 of their size after re-derivation (C04, C10)
                    ecc = max(a.radius.real, a.radius.imag) / min(a.radius.real, a.radius.imag)
                    atol += 1e-7 * abs(a.radius) * sc * ecc
                ctx.check(abs(have - want) <= atol, where + '/transformed_geometry',
                          '%s: point at t=%r is %r, expected %r' % (where, t, have, want))


def _mid_tol(seg):
    """tolerance of the geometric pre-match: arcs whose radii were auto-enlarged are re-enlarged on reading (C01: radii may
    differ by 1e-12 relative) and then only accurate to ~2e-4 of their size (C04)"""
    from svgpathtools import Arc
    z = complex(seg.point(0.5))
    if isinstance(seg, Arc):
        return 1e-3 * max(abs(seg.radius), abs(seg.end - seg.start))
    return 1e-9 * (1 + abs(z))


def attr_equal(v, r):
    if r is None:
        return False
    if isinstance(v, str):
        return r == v
    try:                      # numbers are written as text: the value must be unchanged
        return float(r) == float(v)
    except (TypeError, ValueError):
        return False


def attrs_subset(ctx, where, supplied, returned):
    for k, v in (supplied or {}).items():
        ctx.check(attr_equal(v, returned.get(k)), where + '/attribute_lost',
                  '%s: supplied attribute %s=%r came back as %r' % (where, k, v, returned.get(k)))


def check(case, ctx):
    tmp = tempfile.mkdtemp(prefix='c18_')
    try:
        if case['kind'] == 'wsvg':
            check_wsvg(case, ctx, tmp)
        else:
            check_history(case, ctx, tmp)
    finally:
        shutil.rmtree(tmp, ignore_errors=True)


def check_wsvg(case, ctx, tmp):
    from svgpathtools import wsvg, svg2paths, Document, SaxDocument
    for p in case['paths']:
        if not admissible_path(p):
            ctx.discard('zero-length line / arc')
    paths = [gen.build_path(p) for p in case['paths']]
    attrs = case['attrs']
    ctx.count('wsvg')
    d = os.path.join(tmp, *case['subdirs'])
    if case['subdirs']:
        ctx.count('nested_directory')
    fn = os.path.join(d, case['fname'])
    kw = {}
    if attrs is not None:
        kw['attributes'] = [dict(a) for a in attrs]
        if case.get('stale_d'):
            # the dictionaries svg2paths hands out carry the d-string of the path as it was read; after the paths were edited they
            # are passed back with the old 'd' still in them: it is the path that is written (the 'd' entry is not a supplied value)
            for a in kw['attributes']:
                a['d'] = 'M 1,2 L 3,4 L -5,6'
            ctx.count('attributes_with_stale_d')
        if any('-' in k for a in attrs for k in a):
            ctx.count('attr:hyphenated')
    if case['svg_attrs'] is not None:
        kw['svg_attributes'] = dict(case['svg_attrs'])
        ctx.count('svg_attributes')
    ctx.lib('wsvg', wsvg, paths, filename=fn, **kw)
    ctx.check(os.path.isfile(fn), 'wsvg/no_file', 'wsvg did not create %s' % fn)
    if len(paths) >= 2 and attrs and all(attrs):
        ctx.nontrivial()
    # svg2paths ------------------------------------------------------------------------------
    ctx.count('reader:svg2paths')
    ps, ats, sva = ctx.lib('svg2paths', svg2paths, fn, return_svg_attributes=True)
    ctx.check(len(ps) == len(paths), 'svg2paths/count', 'wrote %d paths, svg2paths read %d' % (len(paths), len(ps)))
    for i, (a, b) in enumerate(zip(paths, ps)):
        same_path(ctx, 'svg2paths', a, b)
        if attrs is not None:
            attrs_subset(ctx, 'svg2paths', attrs[i], ats[i])
    for k, v in (case['svg_attrs'] or {}).items():
        ctx.check(sva.get(k) == v, 'svg2paths/svg_attribute_lost', 'svg attribute %s=%r came back as %r' % (k, v, sva.get(k)))
    # Document -----------------------------------------------------------------------------------
    ctx.count('reader:Document')
    doc = ctx.lib('Document', Document, fn)
    dps = ctx.lib('Document.paths', doc.paths)
    ctx.check(len(dps) == len(paths), 'Document/count', 'wrote %d paths, Document.paths read %d' % (len(paths), len(dps)))
    for i, (a, b) in enumerate(zip(paths, dps)):
        same_path(ctx, 'Document', a, b)
        if attrs is not None:
            attrs_subset(ctx, 'Document', attrs[i], dict(b.element.attrib))
    for k, v in (case['svg_attrs'] or {}).items():
        ctx.check(doc.root.get(k) == v, 'Document/svg_attribute_lost', 'svg attribute %s=%r came back as %r' % (k, v, doc.root.get(k)))
    # SaxDocument -----------------------------------------------------------------------------------
    ctx.count('reader:SaxDocument')
    sax = ctx.lib('SaxDocument', SaxDocument, fn)
    sps = ctx.lib('SaxDocument.flatten_all_paths', sax.flatten_all_paths)
    ctx.check(len(sps) == len(paths), 'SaxDocument/count', 'wrote %d paths, SaxDocument read %d' % (len(paths), len(sps)))
    for a, b in zip(paths, sps):
        same_path(ctx, 'SaxDocument', a, b)
    if attrs is not None and len(sax.tree) == len(paths):
        for i in range(len(paths)):
            # SaxDocument keeps one dictionary per element (inherited values overridden by the element's own attributes)
            attrs_subset(ctx, 'SaxDocument', attrs[i], sax.tree[i])


def check_history(case, ctx, tmp):
    from svgpathtools import Document, wsvg, svg2paths, SaxDocument, Path
    ctx.count('history')
    for p in case['init'] + [op[1] for op in case['ops'] if op[0].startswith('add_path')]:
        if not admissible_path(p):
            ctx.discard('zero-length line / arc')
    model = []      # entries: dict(path=Path, chain=[tf lists], attrs=dict, key=unique)
    groups = [{'elem': None, 'chain': [], 'names': []}]   # index 0 = root
    if case['start'] == 'loaded':
        fn0 = os.path.join(tmp, 'start.svg')
        paths = [gen.build_path(p) for p in case['init']]
        wsvg(paths, filename=fn0)
        doc = ctx.lib('Document', Document, fn0)
        for p in paths:
            model.append({'path': p, 'chain': [], 'attrs': {}})
        ctx.count('history:loaded_document')
    else:
        doc = ctx.lib('Document()', Document)
    named = {}      # tuple of names -> group record
    queried = False
    added_after_query = False
    nsave = 0

    def verify(label, d, readers=('Document',)):
        got = ctx.lib('Document.paths/' + label, d.paths)
        ctx.check(len(got) == len(model), 'history/%s/count' % label, '%s: the document holds %d paths, paths() returned %d' % (label, len(model), len(got)))
        # match by geometry (order across groups is not promised): each model entry must be matched by a distinct result
        used = set()
        for m in sorted(model, key=lambda e: -len(e['attrs'])):
            M = D.tf_list_matrix([t for tl in m['chain'] for t in tl])
            hit = None
            for i, g in enumerate(got):
                if i in used or len(g) != len(m['path']):
                    continue
                try:
                    msc = max(abs(M[0][0]), abs(M[0][1]), abs(M[1][0]), abs(M[1][1]), 1.0)
                    ok = all(type(a) is type(b) and abs(complex(b.point(0.5)) - D.apply(M, complex(a.point(0.5)))) <= 1e-6 * (1 + abs(D.apply(M, complex(a.point(0.5))))) + _mid_tol(a) * msc
                             and abs(complex(b.start) - D.apply(M, complex(a.start))) <= 1e-6 * (1 + abs(complex(b.start)))
                             for a, b in zip(m['path'], g))
                except Exception:
                    ok = False
                if ok:
                    el = g.element
                    attrs_ok = el is None or all(attr_equal(vv, el.attrib.get(kk)) for kk, vv in m['attrs'].items())
                    if attrs_ok:
                        hit = i
                        break
                    if hit is None:
                        hit = i     # geometric match only: reported below as a lost attribute unless a better one turns up
            ctx.check(hit is not None, 'history/%s/path_missing' % label, '%s: a path added to the document (chain %r) is not among the results of paths()'
                      % (label, m['chain']))
            used.add(hit)
            same_path(ctx, 'history/%s' % label, m['path'], got[hit], M)
            el = got[hit].element
            if el is not None:
                attrs_subset(ctx, 'history/%s' % label, m['attrs'], dict(el.attrib))

    for op in case['ops']:
        k = op[0]
        if k in ('add_group', 'add_group_nested'):
            parent = groups[op[3] % len(groups)] if k == 'add_group_nested' else groups[0]
            attribs = {'id': op[1]}
            if op[2]:
                attribs['transform'] = D.tf_text(op[2])
            el = ctx.lib('add_group', doc.add_group, attribs, parent['elem'])
            groups.append({'elem': el, 'chain': parent['chain'] + [op[2]], 'names': None})
        elif k == 'add_path_root':
            p = gen.build_path(op[1])
            ctx.lib('add_path', doc.add_path, p, dict(op[2]))
            model.append({'path': p, 'chain': [], 'attrs': op[2]})
            added_after_query = added_after_query or queried
        elif k == 'add_path_group':
            g = groups[op[3] % len(groups)]
            p = gen.build_path(op[1])
            ctx.lib('add_path', doc.add_path, p, dict(op[2]), g['elem'])
            model.append({'path': p, 'chain': list(g['chain']), 'attrs': op[2]})
            if g['elem'] is not None:
                ctx.count('history:add_to_group_element')
            added_after_query = added_after_query or queried
        elif k == 'add_path_names':
            p = gen.build_path(op[1])
            names = list(op[3])
            ctx.lib('add_path', doc.add_path, p, dict(op[2]), list(names))
            # groups created by name carry no transform
            model.append({'path': p, 'chain': [], 'attrs': op[2]})
            ctx.count('history:add_to_nested_names')
            added_after_query = added_after_query or queried
        elif k == 'paths':
            verify('paths', doc)
            queried = True
        elif k == 'reload':
            if not model:
                continue
            nsave += 1
            fn = os.path.join(tmp, 'doc%d.svg' % nsave)
            ctx.lib('save', doc.save, fn)
            ctx.count('history:reload')
            verify('before_save', doc)
            # svg2paths ignores group transforms: compare the raw paths as multisets by their d-strings
            ps, ats = ctx.lib('svg2paths', svg2paths, fn)
            ctx.check(len(ps) == len(model), 'history/reload/svg2paths/count', 'saved %d paths, svg2paths read %d' % (len(model), len(ps)))
            used = set()
            for m in sorted(model, key=lambda e: -len(e['attrs'])):
                hit = None
                for i, g in enumerate(ps):
                    if i in used or len(g) != len(m['path']):
                        continue
                    if all(type(a) is type(b) and a.start == b.start and a.end == b.end and abs(complex(a.point(0.5)) - complex(b.point(0.5))) <= _mid_tol(a)
                           for a, b in zip(m['path'], g)):
                        if all(attr_equal(vv, ats[i].get(kk)) for kk, vv in m['attrs'].items()):
                            hit = i
                            break
                        if hit is None:
                            hit = i
                ctx.check(hit is not None, 'history/reload/svg2paths/path_missing', 'svg2paths did not read back the path %r' % (m['path'].d()[:200],))
                used.add(hit)
                same_path(ctx, 'history/reload/svg2paths', m['path'], ps[hit])
                attrs_subset(ctx, 'history/reload/svg2paths', m['attrs'], ats[hit])
            sax = ctx.lib('SaxDocument', SaxDocument, fn)
            sps = ctx.lib('SaxDocument.flatten_all_paths', sax.flatten_all_paths)
            ctx.check(len(sps) == len(model), 'history/reload/SaxDocument/count', 'saved %d paths, SaxDocument read %d' % (len(model), len(sps)))
            doc2 = ctx.lib('Document(reload)', Document, fn)
            verify('reloaded', doc2)
            # continue the history on the reloaded document
            doc = doc2
            idmap = {e.get('id'): e for e in doc.tree.iter() if e.get('id')}
            for g in groups[1:]:
                gid = g['elem'].get('id') if g['elem'] is not None else None
                g['elem'] = idmap.get(gid)
            groups = [g for g in groups if g is groups[0] or g['elem'] is not None]
            queried = True
            if added_after_query:
                ctx.nontrivial()
