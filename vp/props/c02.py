"""C02 -- parse_path implements the SVG path-data semantics for every command sequence."""
import itertools
import random

from hypothesis import strategies as st

from vp.ref import svgpath_ref as R
from vp.core import hash64

ID = 'C02'
RULE = ("exhaustive part: every program 'M' + k commands over the 20 letters, k <= 3 (quick) / 4 (thorough), with "
        "argument vectors and two spellings derived deterministically from the program index; generated part: programs "
        "of up to 14 commands with 1-3 implicit argument groups each, numbers as (sign, digits, exp10) triples spelled "
        "with generated separators/signs/leading dots/exponents/compact arc flags. Oracle: reference interpreter "
        "(vp/ref/svgpath_ref.py) on the program, segment-for-segment == ; two spellings parse to equal paths. "
        "Non-trivial = program contains S/T after a non-matching predecessor, a draw command right after Z, an "
        "implicit repeat, relative H/V, a second moveto, or compact arc flags; distinct by (program, spelling) hash.")
ASSUMPTIONS = ["number spellings are drawn from the intersection of the SVG 1.1 and SVG 2 grammars (no '1.')",
               "arcs whose end equals the current point are excluded (constructor precondition start != end), counted as discards",
               "Arc construction itself is C04's subject: expected arcs are built with the library constructor from reference arguments"]
RULE += ' Also: The first spelling is parsed again after an earlier result of the same string was edited in place.'   # added after the seeded-change rounds (DESIGN.md section 10)
CONFIGS = ['scipy']
BUDGET = {'quick': 20000, 'thorough': 400000}
EXHAUSTIVE_NOTE = "all programs M + <=3 (quick) / <=4 (thorough) commands over 20 letters"
REQUIRED = ['reparsed_after_editing_an_earlier_result', 's_reflects', 't_reflects', 'draw_after_z', 'implicit_repeat', 'zero_radius_arc', 'compact_flags',
            'second_moveto', 'h_v_relative', 'z_adds_line', 'z_no_line']
TIME_LIMIT = {'quick': 200, 'thorough': 3000}
# coverage-guided second engine: (shards, libFuzzer runs per shard)
FUZZ = {'quick': (8, 8000), 'thorough': (16, 80000)}

LETTERS = 'MmZzLlHhVvCcSsQqTtAa'


# ---------------------------------------------------------------------------
# number triples and spelling
# ---------------------------------------------------------------------------

def triple_value(tr):
    sign, digits, e = tr
    return float(('-' if sign < 0 else '') + digits + 'e' + str(e))


class Choices(object):
    """Deterministic stream of small ints (drawn by Hypothesis / derived from the case)."""

    def __init__(self, seq):
        self.seq = list(seq) or [0]
        self.i = 0

    def take(self, n):
        v = self.seq[self.i % len(self.seq)] + (self.i // len(self.seq))
        self.i += 1
        return v % n


def spell_number(tr, ch, allow_sign_plus=True):
    """A spelling of the exact decimal sign*digits*10^e."""
    sign, digits, e = tr
    digits = digits.lstrip('0') or '0'
    forms = []
    # plain decimal
    if -8 <= e <= 8 and len(digits) + abs(e) <= 18:
        if e >= 0:
            body = digits + '0' * e
            forms.append(body)
            forms.append(body + '.0')
            forms.append(body + '.00')
        else:
            k = -e
            if len(digits) > k:
                ip, fp = digits[:-k], digits[-k:]
            else:
                ip, fp = '0', '0' * (k - len(digits)) + digits
            forms.append(ip + '.' + fp)
            forms.append(ip + '.' + fp + '0')
            if ip == '0':
                forms.append('.' + fp)
                forms.append('.' + fp + '00')
    # exponent forms: d.ddd e x
    for pos in (1, len(digits)):
        ip, fp = digits[:pos], digits[pos:]
        ee = e + len(fp)
        m = ip + ('.' + fp if fp else '')
        for E in ('e', 'E'):
            forms.append('%s%s%d' % (m, E, ee))
            if ee >= 0:
                forms.append('%s%s+%d' % (m, E, ee))
            forms.append('%s%s%s%02d' % (m, E, '-' if ee < 0 else '', abs(ee)))
    # .ddd e x
    forms.append('.%se%d' % (digits, e + len(digits)))
    s = forms[ch.take(len(forms))]
    if sign < 0:
        s = '-' + s
    elif allow_sign_plus and ch.take(6) == 0:
        s = '+' + s
    return s


def spell_program(prog, ch, compact_flags_ok=True):
    """prog = [[letter, [group,...]], ...]; numbers are triples, arc flags ints.
    Implicit repetition: all groups of one command follow one letter. Returns text, used_compact_flags."""
    out = []
    used_compact = False
    wsps = [' ', ' ', '', '\t', '\n', '  ']
    seps = [' ', ',', ' , ', '\t', '\n', ', ', ' ,', '  ']
    for letter, groups in prog:
        out.append(wsps[ch.take(len(wsps))] if out else ['', ' '][ch.take(2)])
        out.append(letter)
        prev_num = None
        firstnum = True
        for g in groups:
            for k, v in enumerate(g):
                is_flag = letter in 'Aa' and k in (3, 4)
                if is_flag:
                    tok = str(int(v))
                else:
                    tok = spell_number(v, ch)
                if firstnum:
                    sep = ['', ' ', ' ', '  '][ch.take(4)]
                else:
                    c = ch.take(len(seps) + 3)
                    if c >= len(seps):
                        # try an empty separator where the grammar allows it
                        prev_is_flag = prev_num[1]
                        ok = False
                        if prev_is_flag:
                            ok = compact_flags_ok
                            if ok and is_flag or ok:
                                pass
                        elif tok[0] in '+-':
                            ok = True
                        elif tok[0] == '.' and ('.' in prev_num[0] or 'e' in prev_num[0].lower()):
                            ok = True
                        if ok:
                            sep = ''
                            if prev_is_flag:
                                used_compact = True
                        else:
                            sep = ' '
                    else:
                        sep = seps[c]
                out.append(sep)
                out.append(tok)
                prev_num = (tok, is_flag)
                firstnum = False
    out.append(['', ' ', '\n'][ch.take(3)])
    return ''.join(out), used_compact


def prog_values(prog):
    """triples -> floats, for the reference interpreter."""
    cmds = []
    for letter, groups in prog:
        gs = []
        for g in groups:
            vals = []
            for k, v in enumerate(g):
                if letter in 'Aa' and k in (3, 4):
                    vals.append(int(v))
                else:
                    vals.append(triple_value(v))
            gs.append(vals)
        cmds.append((letter, gs))
    return cmds


# ---------------------------------------------------------------------------
# strategies
# ---------------------------------------------------------------------------

digits_s = st.one_of(st.integers(0, 20).map(str), st.integers(0, 999999).map(str),
                     st.integers(0, 10 ** 15).map(str))
exp_s = st.one_of(st.sampled_from([0, 0, 0, -1, -1, -2, -3, 1, 2]), st.integers(-8, 8), st.integers(-30, 25))
triple_s = st.tuples(st.sampled_from([1, 1, -1]), digits_s, exp_s).map(list)
pos_triple_s = st.tuples(st.sampled_from([1, 1, 1, -1]), st.one_of(st.just('0'), st.integers(1, 5000).map(str)),
                         st.sampled_from([0, 0, -1, -2, 1, -9, -12, -20])).map(list)   # radii down to 1e-20 (non-zero: still an arc)


def group_s(letter):
    up = letter.upper()
    if up == 'A':
        return st.tuples(pos_triple_s, pos_triple_s, triple_s, st.integers(0, 1), st.integers(0, 1),
                         triple_s, triple_s).map(list)
    return st.lists(triple_s, min_size=R.ARITY[up], max_size=R.ARITY[up])


@st.composite
def command_s(draw, letters=LETTERS):
    letter = draw(st.sampled_from(letters))
    if letter in 'Zz':
        return [letter, []]
    n = draw(st.sampled_from([1, 1, 1, 2, 3]))
    return [letter, [draw(group_s(letter)) for _ in range(n)]]


def strategy(tier, config):
    @st.composite
    def s(draw):
        first = draw(command_s('Mm'))
        rest = draw(st.lists(command_s(), min_size=0, max_size=14))
        sp1 = draw(st.lists(st.integers(0, 40), min_size=1, max_size=40))
        sp2 = draw(st.lists(st.integers(0, 40), min_size=1, max_size=40))
        return {'prog': [first] + rest, 'sp1': sp1, 'sp2': sp2}
    return s()


def _args_for(letters, argseed):
    """Deterministic argument vectors for the exhaustive programs (pure function of the case)."""
    rnd = random.Random(hash64('%s|%d' % (letters, argseed)))
    pool = [[1, '0', 0], [1, '1', 0], [-1, '2', 0], [1, '25', -1], [-1, '5', -1], [1, '3', 0], [1, '10', 0],
            [-1, '75', -2], [1, '4', 0], [1, '15', -1], [-1, '1', 0], [1, '125', -3], [1, '7', 0], [1, '2', 1]]
    prog = []
    for li, letter in enumerate(letters):
        up = letter.upper()
        if up == 'Z':
            prog.append([letter, []])
            continue
        ngroups = 1 if rnd.random() < 0.7 else 2
        groups = []
        for _ in range(ngroups):
            g = []
            for k in range(R.ARITY[up]):
                if up == 'A' and k in (3, 4):
                    g.append(rnd.randrange(2))
                elif up == 'A' and k in (0, 1):
                    g.append([1, str(rnd.choice([0, 1, 2, 3, 5, 8])), 0] if rnd.random() < 0.85 else [1, '0', 0])
                else:
                    g.append(list(rnd.choice(pool)))
            groups.append(g)
        prog.append([letter, groups])
    return prog


def exhaustive(tier, config):
    kmax = 3 if tier == 'quick' else 4
    nvec = 1 if tier == 'quick' else 2
    for k in range(0, kmax + 1):
        for tail in itertools.product(LETTERS, repeat=k):
            for first in 'Mm':
                if first == 'm' and k == kmax:
                    continue
                for a in range(nvec):
                    yield {'letters': first + ''.join(tail), 'argseed': a}


# ---------------------------------------------------------------------------
# oracle
# ---------------------------------------------------------------------------

def _expected_segments(ref_segs):
    from svgpathtools import Line, QuadraticBezier, CubicBezier, Arc
    out = []
    for s in ref_segs:
        if s[0] in ('L', 'AL'):
            out.append(Line(s[1], s[2]))
        elif s[0] == 'Q':
            out.append(QuadraticBezier(s[1], s[2], s[3]))
        elif s[0] == 'C':
            out.append(CubicBezier(s[1], s[2], s[3], s[4]))
        else:
            out.append(Arc(s[1], complex(s[2][0], s[2][1]), s[3], bool(s[4]), bool(s[5]), s[6]))
    return out


def check(case, ctx):
    from svgpathtools import parse_path, Path
    if 'letters' in case:
        prog = _args_for(case['letters'], case['argseed'])
        sp1 = [hash64('%s|a|%d' % (case['letters'], i)) % 41 for i in range(23)]
        sp2 = [hash64('%s|b|%d' % (case['letters'], i)) % 41 for i in range(29)]
        ctx.count('exhaustive_programs')
    else:
        prog, sp1, sp2 = case['prog'], case['sp1'], case['sp2']
        ctx.count('generated_programs')
    cmds = prog_values(prog)
    try:
        ref, info = R.interpret(cmds)
    except R.PathSyntaxError as e:
        ctx.discard('ungrammatical: ' + str(e)[:30])
    for s in ref:
        for v in s[1:]:
            if isinstance(v, complex) and not (abs(v.real) < 1e300 and abs(v.imag) < 1e300):
                ctx.discard('overflow')
    text1, compact1 = spell_program(prog, Choices(sp1))
    text2, compact2 = spell_program(prog, Choices(sp2))
    # self-check of the printer against the reference scanner (harness bug if it fails)
    for text in (text1, text2):
        tk = R.tokenize(text)
        if [(l, g) for l, g in tk] != [(l, g) for l, g in cmds]:
            raise RuntimeError('printer/scanner disagreement for %r: %r vs %r' % (text, tk, cmds))
    for k, v in info.items():
        ctx.count(k, v)
    if compact1 or compact2:
        ctx.count('compact_flags')
    interesting = [k for k in info if k.startswith('s_fallback') or k.startswith('t_fallback')
                   or k in ('draw_after_z', 'implicit_repeat', 'implicit_lineto_after_moveto', 'h_v_relative',
                            'second_moveto')]
    if interesting or compact1 or compact2:
        ctx.nontrivial(key=[prog, text1], sample={'d': text1, 'd_other_spelling': text2})
    expected = _expected_segments(ref)
    got = []
    for which, text in (('1', text1), ('2', text2)):
        try:
            p = parse_path(text)
        except Exception as e:
            tag = 'compact_flags' if (compact1 if which == '1' else compact2) else 'plain'
            ctx.fail('parse/raises/%s/%s' % (type(e).__name__, tag),
                     'parse_path(%r) raised %s: %s' % (text, type(e).__name__, str(e)[:200]), d=text)
        got.append(p)
        segs = list(p)
        if len(segs) != len(expected):
            ctx.fail('segments/count', 'parse_path(%r) gave %d segments, reference %d: %r vs %r'
                     % (text, len(segs), len(expected), segs, expected), d=text)
        for i, (a, b) in enumerate(zip(segs, expected)):
            if type(a) is not type(b):
                ctx.fail('segments/type/%s' % ref[i][0], 'segment %d of %r is %r, reference %r' % (i, text, a, b), d=text)
            if not (a == b):
                ctx.fail('segments/value/%s%s' % (ref[i][0], '/compact' if (compact1 if which == '1' else compact2) else ''),
                         'segment %d of %r is %r, reference %r' % (i, text, a, b), d=text)
    if not (got[0] == got[1]):
        ctx.fail('spellings_differ', '%r and %r parse to different paths' % (text1, text2))
    # closedness bookkeeping: a path containing Z reports closed-ness consistently with its geometry
    # parsing is a function of the string: what a caller did to an earlier result (edited in place) does not show in a later parse
    if got[0] and len(got[0]) > 0:
        from svgpathtools import Arc
        first = got[0][0]
        if not isinstance(first, Arc):
            first.start = first.start + complex(3.0, -2.0)
        if not isinstance(got[0][-1], Arc):
            got[0].end = got[0].end + complex(-1.0, 5.0)
        ctx.count('reparsed_after_editing_an_earlier_result')
        try:
            p = parse_path(text1)
        except Exception as e:
            ctx.fail('reparse/raises/%s' % type(e).__name__, 'second parse_path(%r) raised %s: %s' % (text1, type(e).__name__, str(e)[:200]), d=text1)
        segs = list(p)
        ok = len(segs) == len(expected) and all(type(a) is type(b) and a == b for a, b in zip(segs, expected))
        if not ok:
            ctx.fail('reparse/differs', 'parse_path(%r) after an earlier result of the same string was edited in place gives %r, reference %r' % (text1, segs, expected), d=text1)
