"""C19 -- Generic n-th order Bezier and polynomial helpers are exact and lose no roots."""
from fractions import Fraction as F
import math

import numpy as np
from hypothesis import strategies as st

from vp import gen
from vp.ref import bez_ref as R

ID = 'C19'
RULE = ("(a) exhaustive: for each degree 0..8 every assignment of two values to each real control value x (n+1) rational t "
        "values, all identities compared exactly in Fractions (decides the polynomial identities, each being multi-affine in "
        "the control values and of degree <= n in t), plus generated Fraction and float control points; (b) polyroots / "
        "polyroots01 on real polynomials of degree 1..8 expanded exactly from prescribed root multisets (simple roots "
        "separated >= 1e-3, clusters 1e-12..1e-6 apart, complex pairs incl. nearly real, roots inside/outside/at the edge of "
        "the condition, leading coefficients of both signs and several magnitudes, every order); (c) rational_limit on "
        "integer-coefficient f, g with a common zero of multiplicity 0..3. Non-trivial = (b) polynomial with a cluster or a "
        "complex pair and a simple root, (a) grid case, (c) common zero; distinct by case hash.")
ASSUMPTIONS = ["(b) requires recovery only of simple, well separated real roots inside the condition by >= 1e-6 whose predicted "
               "rounding error eps*sum|a_i r^i|/|p'(r)| is below 1e-9; nothing is required of cluster members or complex roots",
               "the generic helpers are straight-line polynomial code per degree (read)"]
RULE += ' Also: Pairs of simple roots a few 1e-6 apart on either side of the condition boundary.'   # added after the seeded-change rounds (DESIGN.md section 10)
CONFIGS = ['scipy']
BUDGET = {'quick': 20000, 'thorough': 600000}
EXHAUSTIVE_NOTE = "degrees 0..8: all 2^(n+1) two-valued control assignments x (n+1) t values, exact Fractions"
REQUIRED = ['grid', 'roots:cluster', 'roots:complex_pair', 'roots:simple_required', 'roots:straddling_pair_required', 'limit:common_zero', 'limit:does_not_exist', 'float_bezier']

EPS = 2.0 ** -52
VALS = [(F(-3), F(2)), (F(5), F(-1)), (F(1), F(7)), (F(-2), F(4)), (F(3), F(-5)), (F(6), F(1)), (F(-4), F(3)), (F(2), F(-6)), (F(7), F(-2))]
TVALS = [F(0), F(1), F(1, 2), F(-1, 3), F(5, 4), F(1, 3), F(3, 4), F(2), F(-1)]


def exhaustive(tier, config):
    for n in range(0, 9):
        for bits in range(2 ** (n + 1)):
            yield {'kind': 'grid', 'deg': n, 'bits': bits}


# ---------------------------------------------------------------------------
# strategies
# ---------------------------------------------------------------------------

dec3 = st.integers(-3000, 3000).map(lambda k: [k, 1000])          # rational k/1000


@st.composite
def roots_case(draw):
    items = []   # ['simple', num, den] | ['cluster', num, den, k, gap_exp] | ['pair', re_num, re_den, im_num, im_den]
    deg = 0
    want = draw(st.integers(1, 8))
    while deg < want:
        kind = draw(st.sampled_from(['simple', 'simple', 'simple', 'cluster', 'pair', 'edge', 'straddle']))
        if kind == 'simple':
            items.append(['simple'] + draw(dec3))
            deg += 1
        elif kind == 'edge':
            items.append(['simple'] + draw(st.sampled_from([[0, 1], [1, 1], [1, 1000000], [999999, 1000000], [-1, 1000000], [1000001, 1000000]])))
            deg += 1
        elif kind == 'straddle' and deg + 2 <= want:
            # two simple roots a few 1e-6 apart, one on either side of a boundary of the condition
            items.append(['straddle', draw(st.integers(0, 3)), draw(st.sampled_from([2, 3, 4, 10, 100]))])
            deg += 2
        elif kind == 'cluster' and deg + 2 <= want:
            k = draw(st.integers(2, min(3, want - deg)))
            items.append(['cluster'] + draw(dec3) + [k, draw(st.integers(6, 12))])
            deg += k
        elif kind == 'pair' and deg + 2 <= want:
            im = draw(st.one_of(st.integers(1, 3000).map(lambda v: [v, 1000]), st.sampled_from([[1, 10 ** 6], [1, 10 ** 9], [1, 10 ** 4]])))
            items.append(['pair'] + draw(dec3) + im)
            deg += 2
    lead = draw(st.sampled_from([[1, 1], [-1, 1], [3, 1], [-7, 2], [1, 1000], [1000, 1], [-1, 100000]]))
    order = draw(st.permutations(list(range(len(items)))))
    cond = draw(st.sampled_from(['01', '01', 'open01', 'all', 'interval']))
    lo, hi = sorted([draw(dec3), draw(dec3)])
    return {'kind': 'roots', 'items': [items[i] for i in order], 'lead': lead, 'cond': cond, 'lo': lo, 'hi': hi}


@st.composite
def limit_case(draw):
    t0 = draw(st.sampled_from([[0, 1], [1, 1], [-2, 1], [1, 2], [3, 4], [5, 1], [-1, 4], [1, 2 ** 30], [-1, 2 ** 20]]))
    mf = draw(st.integers(0, 3))
    mg = draw(st.integers(0, 3))
    fr = draw(st.lists(st.integers(-5, 5), min_size=1, max_size=3))   # cofactor coefficients (integers)
    gr = draw(st.lists(st.integers(-5, 5), min_size=1, max_size=3))
    # common power-of-two scale of both polynomials (exact in binary floating point; the limit is unchanged)
    k = draw(st.sampled_from([0, 0, 10, 20, 30, 40, -20]))
    return {'kind': 'limit', 't0': t0, 'mf': mf, 'mg': mg, 'f': fr, 'g': gr, 'k': k}


@st.composite
def bezier_case(draw):
    n = draw(st.integers(0, 8))
    exact = draw(st.booleans())
    if exact:
        pts = draw(st.lists(st.tuples(st.integers(-50, 50), st.integers(1, 12)).map(list), min_size=n + 1, max_size=n + 1))
        t = draw(st.tuples(st.integers(-6, 18), st.integers(1, 12)).map(list))
        return {'kind': 'fbez', 'pts': pts, 't': t}
    sc = draw(gen.scales)
    pts = [draw(gen.point(sc)) for _ in range(n + 1)]
    t = draw(st.one_of(gen.ts_unit, gen.floats_in(-0.25, 1.25)))
    return {'kind': 'float_bez', 'pts': pts, 't': t}


def strategy(tier, config):
    return st.one_of(roots_case(), roots_case(), limit_case(), bezier_case())


# ---------------------------------------------------------------------------
# (a) identities
# ---------------------------------------------------------------------------

def horner(coeffs_high_first, t):
    acc = 0
    for c in coeffs_high_first:
        acc = acc * t + c
    return acc


def check_identities_exact(ctx, p, ts, tag):
    """p: list of Fractions (real control values)."""
    from svgpathtools.bezier import bezier_point, bezier2polynomial, polynomial2bezier, split_bezier, halve_bezier
    n = len(p) - 1
    pts = [(v, F(0)) for v in p]
    co = ctx.lib('bezier2polynomial', bezier2polynomial, list(p))
    co = list(co)
    ctx.check(len(co) == n + 1, '%s/bezier2polynomial/len/deg%d' % (tag, n), 'bezier2polynomial returned %d coefficients' % len(co))
    want_co = [c[0] for c in R.power_coeffs(pts)][::-1]
    ctx.check([F(c) for c in co] == want_co, '%s/bezier2polynomial/deg%d' % (tag, n),
              'bezier2polynomial(%r) = %r, expected %r' % (p, co, want_co))
    co_lo = list(ctx.lib('bezier2polynomial', bezier2polynomial, list(p), numpy_ordering=False))
    ctx.check([F(c) for c in co_lo] == want_co[::-1], '%s/bezier2polynomial/ordering/deg%d' % (tag, n), 'numpy_ordering=False is not the reverse')
    if 1 <= n <= 3:
        back = ctx.lib('polynomial2bezier', polynomial2bezier, want_co)
        ctx.check([F(b) for b in back] == list(p), '%s/polynomial2bezier/deg%d' % (tag, n), 'polynomial2bezier(bezier2polynomial(p)) = %r != %r' % (back, p))
    hl, hr = ctx.lib('halve_bezier', halve_bezier, list(p))
    wl, wr = R.de_casteljau_split(pts, F(1, 2))
    if tag == 'grid':   # integer control values: the float 0.5 used by halve_bezier keeps the arithmetic exact
        ok = [F(v) for v in hl] == [w[0] for w in wl] and [F(v) for v in hr] == [w[0] for w in wr]
    else:
        mag = sum(abs(float(v)) for v in p) + 1e-300
        ok = all(abs(float(v) - float(w[0])) <= 64 * EPS * mag for v, w in list(zip(hl, wl)) + list(zip(hr, wr)))
    ctx.check(ok, '%s/halve_bezier/deg%d' % (tag, n), 'halve_bezier(%r) = %r, %r' % (p, hl, hr))
    for t in ts:
        want = R.bern_point(pts, t)[0]
        got = ctx.lib('bezier_point', bezier_point, list(p), t)
        ctx.check(F(got) == want, '%s/bezier_point/deg%d' % (tag, n), 'bezier_point(%r, %s) = %r, Bernstein sum %r' % (p, t, got, want))
        ctx.check(horner(want_co, t) == want, 'harness/horner', 'reference inconsistency')
        ctx.check(horner([F(c) for c in co], t) == want, '%s/bezier2polynomial_eval/deg%d' % (tag, n), 'polynomial form evaluates to a different value at %s' % t)
        if n >= 1:
            l, r = ctx.lib('split_bezier', split_bezier, list(p), t)
            wl, wr = R.de_casteljau_split(pts, t)
            ctx.check([F(v) for v in l] == [w[0] for w in wl] and [F(v) for v in r] == [w[0] for w in wr], '%s/split_bezier/deg%d' % (tag, n),
                      'split_bezier(%r, %s) = %r, %r; expected %r, %r' % (p, t, l, r, [w[0] for w in wl], [w[0] for w in wr]))
            # the pieces are the sub-curves: evaluate them at u = 1/3
            u = F(1, 3)
            ctx.check(R.bern_point([(F(v), F(0)) for v in l], u)[0] == R.bern_point(pts, u * t)[0] and
                      R.bern_point([(F(v), F(0)) for v in r], u)[0] == R.bern_point(pts, t + u * (1 - t))[0],
                      '%s/split_bezier/subcurves/deg%d' % (tag, n), 'split pieces do not trace B(u t) and B(t+u(1-t))')


def check_grid(case, ctx):
    n, bits = case['deg'], case['bits']
    p = [VALS[i][(bits >> i) & 1] for i in range(n + 1)]
    ctx.count('grid')
    ctx.nontrivial(sample={'grid': True, 'deg': n, 'control_values': [float(v) for v in p]})
    check_identities_exact(ctx, p, TVALS[:n + 2], 'grid')


def check_fbez(case, ctx):
    p = [F(a, b) for a, b in case['pts']]
    t = F(case['t'][0], case['t'][1])
    ctx.count('fraction_bezier')
    ctx.nontrivial()
    check_identities_exact(ctx, p, [t], 'fraction')


def check_float_bez(case, ctx):
    from svgpathtools.bezier import bezier_point, bezier2polynomial, split_bezier, halve_bezier
    pts = case['pts']
    t = case['t']
    n = len(pts) - 1
    cp = [gen.C(p) for p in pts]
    fp = [R.fpt(p) for p in pts]
    ctx.count('float_bezier')
    S = sum(abs(z) for z in cp)
    if S == 0:
        ctx.discard('all zero')
    if len({tuple(p) for p in pts}) >= 2:
        ctx.nontrivial()
    K = 2.0 ** n * 64 * EPS * S * max(1.0, abs(t)) ** n * (n + 1)
    want = R.to_c(R.bern_point(fp, F(t)))
    got = complex(ctx.lib('bezier_point', bezier_point, cp, t))
    ctx.check(abs(got - want) <= K, 'float/bezier_point/deg%d' % n, 'bezier_point(deg %d, t=%r)=%r, exact %r (tol %.3g)' % (n, t, got, want, K))
    co = [complex(c) for c in ctx.lib('bezier2polynomial', bezier2polynomial, cp)]
    wco = [R.to_c(c) for c in R.power_coeffs(fp)][::-1]
    for a, b in zip(co, wco):
        ctx.check(abs(a - b) <= 4.0 ** n * 64 * EPS * S, 'float/bezier2polynomial/deg%d' % n, 'coefficient %r, exact %r' % (a, b))
    if n >= 1 and 0 <= t <= 1:
        l, r = ctx.lib('split_bezier', split_bezier, cp, t)
        wl, wr = R.de_casteljau_split(fp, F(t))
        for a, b in list(zip(l, wl)) + list(zip(r, wr)):
            ctx.check(abs(complex(a) - R.to_c(b)) <= 64 * EPS * S * (n + 1), 'float/split_bezier/deg%d' % n, 'split control point %r, exact %r' % (a, b))
        hl, hr = ctx.lib('halve_bezier', halve_bezier, cp)
        wl, wr = R.de_casteljau_split(fp, F(1, 2))
        for a, b in list(zip(hl, wl)) + list(zip(hr, wr)):
            ctx.check(abs(complex(a) - R.to_c(b)) <= 64 * EPS * S * (n + 1), 'float/halve_bezier/deg%d' % n, 'halve control point %r, exact %r' % (a, b))


# ---------------------------------------------------------------------------
# (b) roots
# ---------------------------------------------------------------------------

def pmul(a, b):
    out = [F(0)] * (len(a) + len(b) - 1)
    for i, x in enumerate(a):
        for j, y in enumerate(b):
            out[i + j] += x * y
    return out


def check_roots(case, ctx):
    from svgpathtools.polytools import polyroots, polyroots01
    poly = [F(case['lead'][0], case['lead'][1])]       # highest first
    real_roots = []   # (value Fraction, role)
    has_cluster = has_pair = False
    cond = case['cond']
    lo, hi = F(case['lo'][0], case['lo'][1]), F(case['hi'][0], case['hi'][1])
    for it in case['items']:
        if it[0] == 'simple':
            r = F(it[1], it[2])
            poly = pmul(poly, [F(1), -r])
            real_roots.append((r, 'simple'))
        elif it[0] == 'straddle':
            b = [lo, hi][it[1] % 2] if cond == 'interval' else F(it[1] % 2)
            for r in (b - F(it[2], 10 ** 6), b + F(it[2], 10 ** 6)):
                poly = pmul(poly, [F(1), -r])
                real_roots.append((r, 'simple'))
        elif it[0] == 'cluster':
            r0 = F(it[1], it[2])
            gap = F(1, 10 ** it[4])
            for j in range(it[3]):
                r = r0 + j * gap
                poly = pmul(poly, [F(1), -r])
                real_roots.append((r, 'cluster'))
            has_cluster = True
        else:
            a, b = F(it[1], it[2]), F(it[3], it[4])
            poly = pmul(poly, [F(1), -2 * a, a * a + b * b])
            has_pair = True
    coeffs = [float(c) for c in poly]
    deg = len(coeffs) - 1
    if deg < 1 or coeffs[0] == 0:
        ctx.discard('degenerate')
    if has_cluster:
        ctx.count('roots:cluster')
    if has_pair:
        ctx.count('roots:complex_pair')
    if cond == '01':
        got = ctx.lib('polyroots01', polyroots01, coeffs)
        inside = lambda r: 0 <= r <= 1
        margin = lambda r: min(r - 0, 1 - r)
    elif cond == 'open01':
        got = ctx.lib('polyroots', polyroots, coeffs, realroots=True, condition=lambda r: 0 < r < 1)
        inside = lambda r: 0 < r < 1
        margin = lambda r: min(r - 0, 1 - r)
    elif cond == 'all':
        got = ctx.lib('polyroots', polyroots, coeffs, realroots=True)
        inside = lambda r: True
        margin = lambda r: 1
    else:
        got = ctx.lib('polyroots', polyroots, coeffs, realroots=True, condition=lambda r: float(lo) <= r <= float(hi))
        inside = lambda r: float(lo) <= r <= float(hi)
        margin = lambda r: min(r - lo, hi - r)
    got = [float(np.real(g)) for g in got]
    # nothing outside the condition may be returned
    for g in got:
        ctx.check(inside(g), 'roots/outside_condition/%s' % cond, 'returned root %r violates the condition (%s)' % (g, cond))
    # every simple, well separated, well conditioned real root inside the condition is returned exactly once
    simple = [r for r, role in real_roots if role == 'simple']
    allr = [r for r, _ in real_roots]
    required = 0
    for r in simple:
        others = [x for x in allr if x is not r]
        if sum(1 for x in allr if x == r) > 1:
            continue
        if margin(r) < F(1, 10 ** 6):
            continue
        near = [x for x in others if abs(x - r) < F(1, 1000)]
        est_max, hit_tol = 1e-9, 1e-6
        if near:
            # a close neighbour that satisfies the condition as well may be merged with r (documented de-duplication);
            # one that clearly violates it may not take r with it
            if cond == 'all' or any(margin(x) > -F(1, 10 ** 6) or abs(x - r) < F(2, 10 ** 6) for x in near):
                continue
            gap = float(min(min(abs(x - r) for x in near), margin(r)))
            est_max, hit_tol = gap / 60, gap / 3
        rf = float(r)
        # predicted rounding error of the root
        pd = abs(sum((deg - i) * coeffs[i] * rf ** (deg - i - 1) for i in range(deg)))
        sm = sum(abs(coeffs[i]) * abs(rf) ** (deg - i) for i in range(deg + 1))
        if pd == 0 or deg * 8 * EPS * sm / pd > est_max:
            ctx.count('roots:skipped_ill_conditioned')
            continue
        # complex pairs whose real part is within 1e-3 and whose imaginary part is tiny act like cluster members
        near_pair = False
        for it in case['items']:
            if it[0] == 'pair' and abs(F(it[1], it[2]) - r) < F(1, 1000) and F(it[3], it[4]) < F(1, 100):
                near_pair = True
        if near_pair:
            continue
        required += 1
        if near:
            ctx.count('roots:straddling_pair_required')
        hits = [g for g in got if abs(g - rf) <= hit_tol]
        if len(hits) != 1:
            where = 'lost' if not hits else 'duplicated'
            ctx.fail('roots/%s/%s%s%s' % (where, cond, '/cluster' if has_cluster else '', '/pair' if has_pair else ''),
                     'simple root %r of %r (roots %r) is returned %d times: polyroots gave %r; np.roots gives %r'
                     % (rf, coeffs, [float(x) for x in allr], len(hits), got, list(np.roots(coeffs))))
    if required:
        ctx.count('roots:simple_required', required)
        if has_cluster or has_pair:
            ctx.nontrivial()


# ---------------------------------------------------------------------------
# (c) rational_limit
# ---------------------------------------------------------------------------

def check_limit(case, ctx):
    from svgpathtools.polytools import rational_limit
    t0 = F(case['t0'][0], case['t0'][1])
    den = case['t0'][1]

    def build(cof, m):
        # integer-coefficient polynomial: cof(t) * (den*t - num)^m   (highest first)
        p = [F(c) for c in cof]
        while len(p) > 1 and p[0] == 0:
            p = p[1:]
        for _ in range(m):
            p = pmul(p, [F(den), F(-case['t0'][0])])
        return p
    f, g = build(case['f'], case['mf']), build(case['g'], case['mg'])
    if all(c == 0 for c in g):
        ctx.discard('g == 0')
    # true multiplicities at t0 (the cofactors may vanish there too)
    def mult(p):
        m = 0
        q = list(p)
        if all(c == 0 for c in q):
            return 99, q
        while horner(q, t0) == 0:
            # divide by (t - t0)
            out = []
            acc = F(0)
            for c in q[:-1]:
                acc = acc * t0 + c
                out.append(acc)
            q = out
            m += 1
        return m, q
    a, fq = mult(f)
    b, gq = mult(g)
    sc = 2.0 ** -case.get('k', 0)
    fpoly = np.poly1d([float(c) * sc for c in f])
    gpoly = np.poly1d([float(c) * sc for c in g])
    if case.get('k', 0):
        ctx.count('limit:scaled_polynomials')
    if a >= 1 and b >= 1:
        ctx.count('limit:common_zero')
        ctx.nontrivial()
    tf = float(t0)
    if b > a:
        ctx.count('limit:does_not_exist')
        try:
            v = rational_limit(fpoly, gpoly, tf)
        except ValueError:
            return
        except Exception as e:
            ctx.fail('limit/raises_%s' % type(e).__name__, 'rational_limit raised %s for f=%r g=%r t0=%r' % (type(e).__name__, f, g, t0))
        ctx.fail('limit/returned_when_nonexistent', 'rational_limit(f=%r, g=%r, %r) returned %r but g vanishes to higher order (%d > %d)' % (fpoly.coeffs, gpoly.coeffs, tf, v, b, a))
    want = F(0) if a > b else horner(fq, t0) / horner(gq, t0)
    if a == 99:
        want = F(0)
    got = ctx.lib('rational_limit', rational_limit, fpoly, gpoly, tf)
    mag = sum(abs(float(c)) for c in f) + sum(abs(float(c)) for c in g)
    ctx.check(abs(float(got) - float(want)) <= 1e-9 * (1 + abs(float(want))), 'limit/value/mf%d_mg%d' % (min(a, 4), b),
              'rational_limit(f=%r, g=%r, t0=%r) = %r, expected %r (multiplicities %d, %d)' % (list(fpoly.coeffs), list(gpoly.coeffs), tf, got, want, a, b))


def check(case, ctx):
    k = case['kind']
    if k == 'grid':
        return check_grid(case, ctx)
    if k == 'fbez':
        return check_fbez(case, ctx)
    if k == 'float_bez':
        return check_float_bez(case, ctx)
    if k == 'roots':
        return check_roots(case, ctx)
    return check_limit(case, ctx)
