"""C15 -- unit_tangent, normal and curvature are the differential geometry of the curve."""
from fractions import Fraction as F
import math

import numpy as np
from hypothesis import strategies as st

from vp import gen
from vp.ref import bez_ref as R

ID = 'C15'
RULE = ("all four segment types, t in [0,1]; Beziers whose first / last control points coincide (p0=p1, p2=p3, p0=p1=p2, "
        "p1=p2=p3; quadratic p0=p1, p1=p2) with the first non-zero difference pointing into 16 fixed directions and random ones, "
        "Python-complex and numpy-complex coordinates; similarity transforms (translation, rotation, uniform scaling by "
        "positive and negative factors) and reversal. Calls are made inside np.errstate(invalid='raise') as the docstrings "
        "prescribe. Oracle: reference derivatives (Bernstein / closed-form arc) at regular points; at singular end points the "
        "direction of the first non-vanishing derivative with the sign of the one-sided limit, cross-checked against the "
        "library's own unit_tangent(t +- 1e-6). Non-trivial = singular end point, or a transform with non-zero rotation; "
        "distinct by case hash.")
ASSUMPTIONS = ["interior cusps (two different one-sided limits) make no claim and are not generated",
               "regular point: |B'(t)| > 1e-6 * size; tolerance 1e-9 on unit vectors (1e-6 for arcs, cf. C04), curvature to 1e-7 relative"]
RULE += ' Also: Both numpy error states; transforms through 3x3 matrices and by 2^-30 / 2^20; numpy arrays of parameters must give the per-parameter values.'   # added after the seeded-change rounds (DESIGN.md section 10)
CONFIGS = ['scipy']
BUDGET = {'quick': 30000, 'thorough': 500000}
REQUIRED = ['array_t', 'numpy_errstate_default', 'singular_transform:matrix', 'singular_transform:scaled_tiny', 'transform:matrix', 'transform:scaled_tiny', 'transform:scaled_huge', 'singular_transform:scaled', 'singular_transform:rotated', 'singular:t0', 'singular:t1', 'regular', 'numpy_coords', 'kind:A', 'kind:L', 'transform:rotated', 'transform:scaled_neg',
            'transform:reversed', 'quadrant:0', 'quadrant:1', 'quadrant:2', 'quadrant:3', 'circular_arc']

EPS = 2.0 ** -52
DIRS16 = [[math.cos(2 * math.pi * k / 16), math.sin(2 * math.pi * k / 16)] for k in range(16)]


@st.composite
def singular_bezier(draw):
    sc = draw(st.sampled_from([1e-2, 1.0, 1.0, 1e2]))
    deg = draw(st.sampled_from([2, 3, 3]))
    end = draw(st.integers(0, 1))      # which end is singular
    order = draw(st.integers(2, deg))  # order of the first non-vanishing derivative
    p0 = draw(gen.point(sc))
    d = draw(st.one_of(st.sampled_from(DIRS16), st.tuples(gen.coord(), gen.coord()).map(list)))
    if d == [0.0, 0.0]:
        d = [1.0, -1.0]
    L = draw(gen.floats_in(0.3, 3.0)) * sc
    nxt = [p0[0] + L * d[0], p0[1] + L * d[1]]
    pts = [list(p0) for _ in range(order)] + [nxt]
    while len(pts) < deg + 1:
        pts.append(draw(gen.point(sc)))
    if pts[-1] == pts[0] and len(set(map(tuple, pts))) == 1:
        pts[-1] = nxt
    if end == 1:
        pts = pts[::-1]
    return {'spec': ['LQC'[deg - 1]] + pts, 'sing_end': end, 'order': order}


def strategy(tier, config):
    @st.composite
    def s(draw):
        mode = draw(st.sampled_from(['singular', 'singular', 'regular', 'regular', 'arc', 'line']))
        npc = draw(st.booleans())
        es = draw(st.sampled_from(['raise', 'default']))
        tr = draw(st.sampled_from(['none', 'translated', 'rotated', 'scaled', 'scaled_neg', 'reversed', 'matrix', 'scaled_tiny', 'scaled_huge']))
        tp = {'deg': draw(st.one_of(st.sampled_from([90.0, 180.0, 45.0, -30.0]), gen.floats_in(-360.0, 360.0))),
              'z': [draw(gen.coord()), draw(gen.coord())], 's': draw(gen.floats_in(0.2, 5.0))}
        ts = draw(st.lists(gen.ts_unit, min_size=1, max_size=2))
        if mode == 'singular':
            sb = draw(singular_bezier())
            return {'mode': mode, 'spec': sb['spec'], 'sing_end': sb['sing_end'], 'order': sb['order'], 'numpy': npc, 'tr': tr, 'tp': tp, 'ts': ts, 'errstate': es}
        if mode == 'arc':
            a = draw(gen.arc_center_form(max_ecc=30, scale_strategy=st.sampled_from([1e-2, 1.0, 1.0, 1e2])))
            spec = list(a['spec'])
            if draw(st.integers(0, 3)) == 0:
                # radii too small for the chord: the constructor enlarges them (everything derived must use the enlarged ones)
                f = draw(st.sampled_from([0.5, 0.1, 0.9, 0.01]))
                spec[2] = [spec[2][0] * f, spec[2][1] * f]
            return {'mode': mode, 'spec': spec, 'numpy': False, 'tr': tr, 'tp': tp, 'ts': ts, 'errstate': es}
        if mode == 'line':
            b = draw(gen.bezier_spec(deg_strategy=st.just(1)))
            return {'mode': mode, 'spec': b['spec'], 'numpy': npc, 'tr': tr, 'tp': tp, 'ts': ts, 'errstate': es}
        b = draw(gen.bezier_spec(deg_strategy=st.sampled_from([2, 3]), classes=['generic', 'generic', 'collinear', 'elevated', 'axis', 'nearlinear']))
        return {'mode': mode, 'spec': b['spec'], 'numpy': npc, 'tr': tr, 'tp': tp, 'ts': ts, 'errstate': es}
    return s()


def build(spec, use_numpy):
    from svgpathtools import Line, QuadraticBezier, CubicBezier
    if spec[0] == 'A' or not use_numpy:
        return gen.build_seg(spec)
    cls = {'L': Line, 'Q': QuadraticBezier, 'C': CubicBezier}[spec[0]]
    return cls(*[np.complex128(complex(p[0], p[1])) for p in spec[1:]])


def ref_derivs(spec, seg, t):
    """(B', B'') at t as complex, from the reference model"""
    if spec[0] == 'A':
        from vp.ref import arc_ref
        cf = {'rx': seg.radius.real, 'ry': seg.radius.imag, 'phi_deg': seg.rotation, 'theta1_deg': float(seg.theta), 'delta_deg': float(seg.delta)}
        return arc_ref.deriv(cf, t, 1), arc_ref.deriv(cf, t, 2)
    fp = [R.fpt(p) for p in spec[1:]]
    return R.to_c(R.bern_deriv(fp, F(t), 1)), R.to_c(R.bern_deriv(fp, F(t), 2))


def expected_singular_tangent(spec, end):
    """direction of the first non-vanishing derivative at the end, with the sign of the limit from inside"""
    fp = [R.fpt(p) for p in spec[1:]]
    n = len(fp) - 1
    t = F(end)
    for k in range(1, n + 1):
        d = R.bern_deriv(fp, t, k)
        if d[0] != 0 or d[1] != 0:
            z = R.to_c(d)
            if end == 1 and k % 2 == 0:
                z = -z
            return z / abs(z), k
    return None, None


def _transform_of(case, ctx):
    """(operation, parameters): 'scaled_tiny' / 'scaled_huge' are uniform scalings by 2**-30 / 2**20 (a change of unit)"""
    tr, tp = case['tr'], case['tp']
    if tr == 'scaled_tiny':
        return 'scaled', dict(tp, s=2.0 ** -30, label='scaled_tiny')
    if tr == 'scaled_huge':
        return 'scaled', dict(tp, s=2.0 ** 20, label='scaled_huge')
    return tr, tp


def _matrix_image(seg, tp, size):
    """the rotation by tp['deg'] followed by a translation, applied through transform(seg, 3x3 matrix)"""
    from svgpathtools.path import transform
    a = math.radians(tp['deg'])
    z = gen.C(tp['z']) * size
    M = np.array([[math.cos(a), -math.sin(a), z.real], [math.sin(a), math.cos(a), z.imag], [0.0, 0.0, 1.0]])
    return transform(seg, M)


def check(case, ctx):
    import warnings
    # numpy's floating-point error state is the caller's business: the results may not depend on it
    if case.get('errstate', 'raise') == 'raise':
        with np.errstate(invalid='raise', divide='raise'):
            return _check(case, ctx)
    ctx.count('numpy_errstate_default')
    with warnings.catch_warnings():
        warnings.simplefilter('ignore')
        with np.errstate(invalid='warn', divide='warn'):
            return _check(case, ctx)


def _check(case, ctx):
    spec = case['spec']
    kind = spec[0]
    if kind == 'A':
        from vp.ref import arc_ref
        L = arc_ref.lam(spec[1], spec[2][0], spec[2][1], spec[3], spec[6])
        if not (1e-8 < L < 1e8):
            ctx.discard('arc chord/radius ratio extreme')
    if kind == 'L' and spec[1] == spec[2]:
        ctx.discard('zero-length line')
    if kind != 'A' and len({tuple(p) for p in spec[1:]}) < 2:
        ctx.discard('point-like segment')
    seg = ctx.lib('build', build, spec, case['numpy'])
    ctx.count('kind:' + kind)
    if case['numpy'] and kind != 'A':
        ctx.count('numpy_coords')
    size = gen.spec_size([spec])
    if not (1e-6 <= size <= 1e9):
        ctx.discard('size outside the 1e-3..1e6 coordinate scales')
    utol = 1e-6 if kind == 'A' else 1e-9
    if True:
        # -- regular points ------------------------------------------------------------------------
        for t in case['ts']:
            d1, d2 = ref_derivs(spec, seg, t)
            if abs(d1) <= 1e-6 * size:
                continue
            ctx.count('regular')
            ut = complex(ctx.lib('unit_tangent/' + kind, seg.unit_tangent, t))
            want = d1 / abs(d1)
            ctx.check(abs(ut - want) <= utol, 'regular/unit_tangent/' + kind, 'unit_tangent(%r)=%r, expected %r' % (t, ut, want))
            ctx.check(abs(abs(ut) - 1) <= 1e-12, 'regular/not_unit/' + kind, '|unit_tangent(%r)|=%r' % (t, abs(ut)))
            nv = complex(ctx.lib('normal/' + kind, seg.normal, t))
            ctx.check(abs(nv - (-1j) * ut) <= 1e-12, 'normal/' + kind, 'normal(%r)=%r, expected -1j*unit_tangent=%r' % (t, nv, -1j * ut))
            kap = float(ctx.lib('curvature/' + kind, seg.curvature, t))
            wk = abs(d1.real * d2.imag - d1.imag * d2.real) / abs(d1) ** 3
            # conditioning: the cross product cancels for nearly straight curves
            pos = max(abs(gen.C(p)) for p in gen.spec_points(spec)) + size
            # conditioning: the second differences carry rounding of the size of the coordinates themselves
            ktol = 1e-7 * wk + 4096 * EPS * abs(d2) / abs(d1) ** 2 + 4096 * EPS * pos / abs(d1) ** 2 + (1e-5 * wk if kind == 'A' else 0)
            ctx.check(abs(kap - wk) <= ktol, 'curvature/' + kind, 'curvature(%r)=%r, expected %r' % (t, kap, wk))
            if kind == 'L':
                ctx.check(kap == 0, 'curvature/line_not_zero', 'Line.curvature=%r' % kap)
            if kind == 'A' and seg.radius.real == seg.radius.imag:
                ctx.count('circular_arc')
                ctx.check(abs(kap - 1 / seg.radius.real) <= 1e-6 / seg.radius.real, 'curvature/circle', 'curvature=%r but 1/r=%r' % (kap, 1 / seg.radius.real))
        # -- several parameters at once --------------------------------------------------------------
        # the methods accept numpy arrays of parameters; whatever they return for an array must be the per-parameter values
        # (an exception is not judged here: the property speaks of single parameters)
        tsr = [t for t in case['ts'] + [0.3, 0.7] if abs(ref_derivs(spec, seg, t)[0]) > 1e-6 * size]
        if len(tsr) >= 2:
            arr = np.array(tsr)
            for name, fn in (('unit_tangent', seg.unit_tangent), ('normal', seg.normal), ('curvature', seg.curvature)):
                try:
                    many = fn(arr)
                except Exception:
                    ctx.count('array_t_raises:' + name)
                    continue
                ctx.count('array_t')
                single = np.array([complex(fn(t)) for t in tsr])
                many = np.broadcast_to(np.asarray(many, dtype=complex), single.shape)
                scale_ = 1.0 + np.abs(single)
                ctx.check(bool(np.all(np.abs(many - single) <= 1e-9 * scale_)), 'array_t/%s/%s' % (name, kind),
                          '%s(array %r) = %r, one by one %r' % (name, tsr, many.tolist(), single.tolist()))
        # -- singular end points ------------------------------------------------------------------------
        if case['mode'] == 'singular':
            e = case['sing_end']
            want, k = expected_singular_tangent(spec, e)
            if want is not None and k >= 2:
                ctx.count('singular:t%d' % e)
                quad = (0 if want.real >= 0 else 1) + (0 if want.imag >= 0 else 2)
                ctx.count('quadrant:%d' % quad)
                ctx.nontrivial()
                ut = complex(ctx.lib('unit_tangent/singular/t%d' % e, seg.unit_tangent, float(e)))
                cls = 'left' if want.real < 0 else 'right'
                ctx.check(abs(ut - want) <= 1e-7, 'singular/unit_tangent/t%d/order%d/%s_half_plane' % (e, k, cls),
                          'unit_tangent(%d)=%r at a vanishing derivative; the limit from inside is %r' % (e, ut, want))
                # step into the interval, small against the scale on which the next derivative takes over
                fp_ = [R.fpt(p) for p in spec[1:]]
                dk = abs(R.to_c(R.bern_deriv(fp_, F(e), k)))
                dk1 = abs(R.to_c(R.bern_deriv(fp_, F(e), k + 1))) if k + 1 <= len(fp_) - 1 else 0.0
                step = 1e-6 if dk1 == 0 else min(1e-6, 1e-3 * dk / dk1)
                near = complex(seg.unit_tangent(step if e == 0 else 1 - step))
                ctx.check(abs(ut - near) <= 0.5, 'singular/inconsistent_with_neighbourhood/t%d' % e,
                          'unit_tangent(%d)=%r but unit_tangent one 1e-6 step inside is %r' % (e, ut, near))
                nv = complex(ctx.lib('normal/singular', seg.normal, float(e)))
                ctx.check(abs(nv - (-1j) * ut) <= 1e-12, 'singular/normal', 'normal != -1j*unit_tangent at the singular end')
                # the tangent at the singular end transforms like any other tangent (the operations must keep coincident
                # control points coincident, otherwise the end tangent of the image is rounding noise)
                tr, tp = _transform_of(case, ctx)
                # conditioning: the first non-vanishing derivative must be visible at the curve's own scale and position, or the
                # image's end tangent is decided by rounding in the operation's arithmetic (a 1e-278 offset does not survive a translation)
                pos_s = max(abs(gen.C(p)) for p in spec[1:]) + size * (1 + abs(gen.C(tp['z'])))
                if tr != 'none' and dk < 1e-6 * pos_s:
                    ctx.count('singular_transform_skipped_ill_conditioned')
                    tr = 'none'
                if tr != 'none':
                    if tr == 'translated':
                        other, ewant, ee = seg.translated(gen.C(tp['z']) * size), want, e
                    elif tr == 'matrix':
                        w = complex(math.cos(math.radians(tp['deg'])), math.sin(math.radians(tp['deg'])))
                        other, ewant, ee = _matrix_image(seg, tp, size), w * want, e
                    elif tr == 'rotated':
                        w = complex(math.cos(math.radians(tp['deg'])), math.sin(math.radians(tp['deg'])))
                        other, ewant, ee = seg.rotated(tp['deg'], 0j), w * want, e
                    elif tr == 'scaled':
                        other, ewant, ee = seg.scaled(tp['s']), want, e
                    elif tr == 'scaled_neg':
                        other, ewant, ee = seg.scaled(-tp['s']), -want, e
                    else:
                        other, ewant, ee = seg.reversed(), -want, 1 - e
                    ctx.count('singular_transform:' + tp.get('label', tr))
                    got = complex(ctx.lib('unit_tangent/singular/' + tr, other.unit_tangent, float(ee)))
                    ctx.check(abs(got - ewant) <= 1e-6, 'singular/covariance/%s/t%d' % (tr, e),
                              '%s: unit_tangent at the singular end of the image is %r, expected %r' % (tr, got, ewant))
        # -- covariance ------------------------------------------------------------------------------------
        tr, tp = _transform_of(case, ctx)
        if tr != 'none':
            t = case['ts'][0]
            d1, d2 = ref_derivs(spec, seg, t)
            if abs(d1) > 1e-6 * size:
                base_ut = complex(seg.unit_tangent(t))
                base_k = float(seg.curvature(t))
                if tr == 'translated':
                    other = ctx.lib('translated', seg.translated, gen.C(tp['z']) * size)
                    eut, ek, tt = base_ut, base_k, t
                elif tr == 'rotated':
                    other = ctx.lib('rotated', seg.rotated, tp['deg'], 0j)
                    w = complex(math.cos(math.radians(tp['deg'])), math.sin(math.radians(tp['deg'])))
                    eut, ek, tt = w * base_ut, base_k, t
                    if tp['deg'] % 360:
                        ctx.nontrivial()
                elif tr == 'matrix':
                    other = ctx.lib('transform', _matrix_image, seg, tp, size)
                    w = complex(math.cos(math.radians(tp['deg'])), math.sin(math.radians(tp['deg'])))
                    eut, ek, tt = w * base_ut, base_k, t
                    if tp['deg'] % 360:
                        ctx.nontrivial()
                elif tr == 'scaled':
                    other = ctx.lib('scaled', seg.scaled, tp['s'])
                    eut, ek, tt = base_ut, base_k / tp['s'], t
                elif tr == 'scaled_neg':
                    other = ctx.lib('scaled', seg.scaled, -tp['s'])
                    eut, ek, tt = -base_ut, base_k / tp['s'], t
                else:
                    other = ctx.lib('reversed', seg.reversed)
                    eut, ek, tt = -base_ut, base_k, 1 - t
                ctx.count('transform:' + tp.get('label', tr))
                out = complex(ctx.lib('unit_tangent/' + tr, other.unit_tangent, tt))
                pos_ = max(abs(gen.C(p)) for p in gen.spec_points(spec)) + size * (1 + abs(gen.C(tp['z'])))
                ctol = (1e-5 if kind == 'A' else 1e-8) + 4096 * EPS * pos_ / abs(d1)
                ctx.check(abs(out - eut) <= ctol, 'covariance/unit_tangent/%s/%s' % (tr, kind), '%s: unit_tangent=%r, expected %r' % (tr, out, eut))
                ok = float(ctx.lib('curvature/' + tr, other.curvature, tt))
                pos = max(abs(gen.C(p)) for p in gen.spec_points(spec)) + size * (1 + abs(gen.C(tp['z'])))
                sfac = (1 / tp['s'] if 'scaled' in tr else 1)
                ctx.check(abs(ok - ek) <= 1e-5 * abs(ek) + (1e-6 * abs(d2) / abs(d1) ** 2 + 1e5 * EPS * pos / abs(d1) ** 2) * sfac, 'covariance/curvature/%s/%s' % (tr, kind),
                          '%s: curvature=%r, expected %r' % (tr, ok, ek))
