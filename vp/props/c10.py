"""C10 -- translated/rotated/scaled/transform commute with point evaluation."""
import math

import numpy as np
from hypothesis import strategies as st

from vp import gen
from vp.ref import arc_ref

ID = 'C10'
RULE = ("segments of all four types and paths (open/closed, with arcs) x operations: translated(z), rotated(deg[, origin]) with "
        "angles from {multiples of 90, arbitrary, >360}, scaled(s[, sy][, origin]) with negative and <1 factors (sx!=sy on "
        "Beziers; must be refused on arcs), transform(M) with M a product of 1-3 factors from {rotation, uniform scale, "
        "non-uniform scale, reflection about x / y / the line y=x, shear, translation}, condition number <= 1e3, identity "
        "included. Oracle: op(curve).point(t) vs the map applied to curve.point(t) on a 9-point grid plus generated t; joints "
        "that coincided exactly (incl. the closing joint) coincide exactly afterwards. Non-trivial = non-identity operation "
        "on a curve with >= 2 distinct points; distinct by (curve, op) hash.")
ASSUMPTIONS = ["Bezier tolerance: rounding bound 1024*eps*(|positions| under the map); arcs: 1e-7*size*cond(M) (2e-4 in the "
               "exactly-fitting window, cf. C04)", "default origins as documented: point(0.5), Arc.center, Path.point(0.5); scaled default 0j"]
RULE += ' Also: Operands may have a past (queried, reversed twice, translated there and back); matrices include near-identity and integer-typed ones; arcs built with autoscale_radius=False; a non-uniformly scaled arc must be refused or right.'   # added after the seeded-change rounds (DESIGN.md section 10)
CONFIGS = ['scipy']
BUDGET = {'quick': 30000, 'thorough': 400000}
REQUIRED = ['pre:queried', 'pre:reversed_twice', 'pre:transformed_before', 'op:translated', 'op:rotated', 'op:scaled', 'op:scaled_xy', 'op:transform', 'kind:A', 'kind:path', 'path:closed',
            'M:shear', 'M:reflect_diag', 'M:nonuniform', 'M:rotation', 'M:near_identity', 'M:integer_typed_array', 'arc_without_autoscale', 'path:near_miss_joint']

EPS = 2.0 ** -52
TG = [0.0, 0.125, 0.25, 0.375, 0.5, 0.625, 0.75, 0.875, 1.0]


@st.composite
def matrix_s(draw):
    """list of factor descriptions; the product (left to right) is the matrix"""
    n = draw(st.integers(1, 3))
    fs = []
    for _ in range(n):
        k = draw(st.sampled_from(['rotation', 'uniform', 'nonuniform', 'reflect_x', 'reflect_y', 'reflect_diag', 'shear', 'translation', 'identity', 'near_identity', 'integer']))
        if k == 'rotation':
            fs.append([k, draw(st.one_of(st.sampled_from([90.0, 180.0, 270.0, 45.0, 30.0, -60.0]), gen.floats_in(-360.0, 360.0)))])
        elif k == 'uniform':
            fs.append([k, draw(st.one_of(st.sampled_from([2.0, 0.5, -1.0, 3.0]), gen.floats_in(0.1, 10.0)))])
        elif k == 'nonuniform':
            fs.append([k, draw(gen.floats_in(0.2, 5.0)), draw(gen.floats_in(0.2, 5.0)) * draw(st.sampled_from([1, 1, -1]))])
        elif k == 'shear':
            fs.append([k, draw(gen.floats_in(-2.0, 2.0)), draw(st.integers(0, 1))])
        elif k == 'translation':
            fs.append([k, draw(gen.coord()), draw(gen.coord())])
        elif k == 'integer':
            # integer entries; handed over as an integer-typed array when every factor is integral
            iv = st.integers(-3, 3)
            fs.append([k, draw(iv), draw(iv), draw(iv), draw(iv), draw(st.integers(-9, 9)), draw(st.integers(-9, 9))])
        elif k == 'near_identity':
            # a matrix that differs from the identity by a relative 1e-12..1e-5 in one respect (still invertible, still not the identity)
            fs.append([k, draw(st.integers(0, 3)), draw(st.sampled_from([1e-5, 8e-6, 1e-6, 1e-7, 1e-9, 1e-12])) * draw(st.sampled_from([1, -1]))])
        else:
            fs.append([k])
    return fs


def build_matrix(fs):
    M = np.identity(3)
    for f in fs:
        k = f[0]
        A = np.identity(3)
        if k == 'rotation':
            a = math.radians(f[1])
            A[:2, :2] = [[math.cos(a), -math.sin(a)], [math.sin(a), math.cos(a)]]
        elif k == 'uniform':
            A[0, 0] = A[1, 1] = f[1]
        elif k == 'nonuniform':
            A[0, 0], A[1, 1] = f[1], f[2]
        elif k == 'reflect_x':
            A[1, 1] = -1
        elif k == 'reflect_y':
            A[0, 0] = -1
        elif k == 'reflect_diag':
            A[:2, :2] = [[0, 1], [1, 0]]
        elif k == 'shear':
            if f[2]:
                A[0, 1] = f[1]
            else:
                A[1, 0] = f[1]
        elif k == 'translation':
            A[0, 2], A[1, 2] = f[1], f[2]
        elif k == 'integer':
            A[0, 0], A[0, 1], A[1, 0], A[1, 1], A[0, 2], A[1, 2] = f[1:7]
        elif k == 'near_identity':
            if f[1] == 0:
                A[0, 0] = A[1, 1] = 1 + f[2]
            elif f[1] == 1:
                A[:2, :2] = [[math.cos(f[2]), -math.sin(f[2])], [math.sin(f[2]), math.cos(f[2])]]
            elif f[1] == 2:
                A[0, 2] = f[2]
            else:
                A[0, 1] = f[2]
        M = M.dot(A)
    return M


def strategy(tier, config):
    @st.composite
    def s(draw):
        if draw(st.integers(0, 3)) == 0:
            closed = draw(st.booleans())
            specs = draw(gen.chain_specs(min_size=2, max_size=5, closed=closed, scale=draw(st.sampled_from([1e-2, 1.0, 1.0, 1e2, 1e4]))))
            if draw(st.integers(0, 5)) == 0:
                # a closed path made of a single looping segment (start == end)
                b = draw(gen.bezier_spec(deg_strategy=st.sampled_from([2, 3]), classes=['generic']))['spec']
                b[-1] = list(b[1])
                specs = [b]
            # near-miss joints: the next segment starts a hair (an ulp .. 1e-6 sizes) away from where the previous one ended; such a
            # joint does not "coincide exactly" and nothing may be moved to make it so
            szs = gen.spec_size(specs)
            for i in range(1, len(specs)):
                if draw(st.integers(0, 7)) == 0 and specs[i][0] != 'A':
                    dd = draw(st.sampled_from(['ulp', 1e-12, 1e-9, 1e-6]))
                    x = specs[i][1][0]
                    nx = gen.nextafter_k(x, 1) if dd == 'ulp' else x + dd * szs
                    if nx != x and len({tuple(q) for q in specs[i][1:]}) > 1:
                        specs[i][1] = [nx, specs[i][1][1]]
            target = {'what': 'path', 'segs': specs}
        elif draw(st.integers(0, 2)) == 0:
            a = draw(gen.arc_center_form(max_ecc=30))
            target = {'what': 'seg', 'segs': [a['spec']]}
        else:
            target = {'what': 'seg', 'segs': [draw(gen.bezier_spec())['spec']]}
        op = draw(st.sampled_from(['translated', 'rotated', 'rotated', 'scaled', 'scaled_xy', 'transform', 'transform', 'transform']))
        sc = gen.spec_size(target['segs'])
        d = dict(target)
        d['op'] = op
        if op == 'translated':
            d['z'] = [draw(gen.coord()) * sc, draw(gen.coord()) * sc]
        elif op == 'rotated':
            d['deg'] = draw(st.one_of(st.sampled_from([90.0, 180.0, 270.0, -90.0, 360.0, 450.0, 45.0, 0.0]), gen.floats_in(-720.0, 720.0)))
            d['origin'] = draw(st.one_of(st.none(), st.tuples(gen.coord(), gen.coord()).map(lambda p: [p[0] * sc, p[1] * sc])))
        elif op in ('scaled', 'scaled_xy'):
            d['sx'] = draw(st.one_of(st.sampled_from([2.0, 0.5, -1.0, -2.0, 3.0, 1.0]), gen.floats_in(-5.0, 5.0).filter(lambda v: abs(v) > 1e-3)))
            d['sy'] = draw(st.one_of(st.sampled_from([2.0, 0.5, -1.0, 3.0]), gen.floats_in(-5.0, 5.0).filter(lambda v: abs(v) > 1e-3))) if op == 'scaled_xy' else None
            d['origin'] = draw(st.one_of(st.none(), st.tuples(gen.coord(), gen.coord()).map(lambda p: [p[0] * sc, p[1] * sc])))
        else:
            d['M'] = draw(matrix_s())
        d['ts'] = draw(st.lists(gen.floats_in(0.0, 1.0), min_size=1, max_size=2))
        d['pre'] = draw(st.sampled_from(['none', 'none', 'queried', 'reversed_twice', 'transformed_before']))
        d['noautoscale'] = draw(st.integers(0, 2)) == 0
        return d
    return s()


def _arc_tol_factor(spec):
    L = arc_ref.lam(spec[1], spec[2][0], spec[2][1], spec[3], spec[6])
    return L


def check(case, ctx):
    from svgpathtools import Arc, Line, Path
    from svgpathtools.path import transform
    specs = case['segs']
    for sp in specs:
        if sp[0] == 'A':
            L = _arc_tol_factor(sp)
            if not (1e-10 < L < 1e10):
                ctx.discard('arc chord/radius ratio extreme')
    is_path = case['what'] == 'path'
    curve = ctx.lib('build', gen.build_path, specs) if is_path else ctx.lib('build', gen.build_seg, specs[0])
    if case.get('noautoscale') and any(sp[0] == 'A' for sp in specs):
        # arcs constructed with autoscale_radius=False (accepted by the constructor when the radii fit): nothing in the claim changes
        def _arc(sp):
            try:
                return Arc(gen.C(sp[1]), gen.C(sp[2]), sp[3], bool(sp[4]), bool(sp[5]), gen.C(sp[6]), autoscale_radius=False)
            except ValueError:
                return gen.build_seg(sp)
        segs_ = [_arc(sp) if sp[0] == 'A' else gen.build_seg(sp) for sp in specs]
        if any(isinstance(sg, Arc) and not sg.autoscale_radius for sg in segs_):
            ctx.count('arc_without_autoscale')
        curve = Path(*segs_) if is_path else segs_[0]
    kind = 'path' if is_path else specs[0][0]
    ctx.count('kind:' + kind)
    # the object the operation is applied to may have a past: caches filled by queries, or itself the product of operations
    pre = case.get('pre', 'none')
    if pre != 'none':
        ctx.count('pre:' + pre)
        ctx.lib('warm', curve.length)
        ctx.lib('warm', curve.bbox)
        ctx.lib('warm', curve.point, 0.3)
        if pre == 'reversed_twice':
            curve = ctx.lib('reversed', ctx.lib('reversed', curve.reversed).reversed)
        elif pre == 'transformed_before':
            # there and back by an exactly invertible translation (power of two times the size)
            zz = complex(2.0 ** math.floor(math.log2(gen.spec_size(specs) or 1.0)), 0)
            curve = ctx.lib('translated', ctx.lib('translated', curve.translated, zz).translated, -zz)
            ctx.lib('warm', curve.length)
        specs = [gen.seg_spec_of(sg) for sg in (curve if is_path else [curve])]
    op = case['op']
    ctx.count('op:' + op)
    has_arc = any(s[0] == 'A' for s in specs)
    size = gen.spec_size(specs)
    pos = max(abs(gen.C(p)) for s in specs for p in gen.spec_points(s)) + size
    degenerate = False
    ecc = 1.0
    for sp, sg in zip(specs, curve if is_path else [curve]):
        if sp[0] == 'A':
            L = _arc_tol_factor(sp)
            degenerate = degenerate or L > 1 or abs(1 / L - 1) < 1e-6
            ecc = max(ecc, max(sg.radius.real, sg.radius.imag) / min(sg.radius.real, sg.radius.imag))

    segs = list(curve) if is_path else [curve]
    closed_joints = []
    if is_path:
        n = len(segs)
        closed_joints = [i for i in range(n) if segs[i].end == segs[(i + 1) % n].start]
        if gen.path_is_closed(specs):
            ctx.count('path:closed')

    # the points of the curve as it is before the operation (the operation must not be judged against a source it altered)
    src_pts = [[complex(a.point(t)) for t in TG + case['ts']] for a in segs]
    # -- the operation and its expected action on points -----------------------------------------
    cond = 1.0
    mag = 1.0
    if op == 'translated':
        z = gen.C(case['z'])
        f = lambda p: p + z
        res = ctx.lib('translated/' + kind, curve.translated, z)
        mag = 1 + abs(z) / pos
        trivial = z == 0
    elif op == 'rotated':
        deg = case['deg']
        if case['origin'] is None:
            origin = complex(curve.center) if isinstance(curve, Arc) else complex(curve.point(0.5))
            res = ctx.lib('rotated/' + kind, curve.rotated, deg)
        else:
            origin = gen.C(case['origin'])
            res = ctx.lib('rotated/' + kind, curve.rotated, deg, origin)
        w = complex(math.cos(math.radians(deg)), math.sin(math.radians(deg)))
        f = lambda p: w * (p - origin) + origin
        mag = 1 + abs(origin) / pos
        trivial = deg % 360 == 0
    elif op in ('scaled', 'scaled_xy'):
        sx, sy = case['sx'], case['sy']
        origin = 0j if case['origin'] is None else gen.C(case['origin'])
        args = (sx,) if sy is None else (sx, sy)
        kw = {} if case['origin'] is None else {'origin': origin}
        esy = sx if sy is None else sy
        f = lambda p: complex(sx * (p.real - origin.real) + origin.real, esy * (p.imag - origin.imag) + origin.imag)
        mag = max(abs(sx), abs(esy)) * (1 + abs(origin) / pos)
        trivial = sx == 1 and esy == 1
        if has_arc and sy is not None and sy != sx:
            # must be refused, never silently wrong
            # refused, or else right: "never silently wrong" (a result that is returned goes through the point-wise comparison)
            try:
                res = curve.scaled(*args, **kw)
            except Exception:
                ctx.count('arc_nonuniform_scaled_refused')
                ctx.nontrivial()
                return
            ctx.count('arc_nonuniform_scaled_accepted')
            cond = max(abs(sx), abs(esy)) / min(abs(sx), abs(esy))
        else:
            res = ctx.lib('scaled/' + kind, curve.scaled, *args, **kw)
    else:
        M = build_matrix(case['M'])
        for fct in case['M']:
            ctx.count('M:' + fct[0])
        A = M[:2, :2]
        sv = np.linalg.svd(A, compute_uv=False)
        if sv[-1] <= 0 or sv[0] / sv[-1] > 1e3:
            ctx.discard('condition number above 1e3')
        cond = float(sv[0] / sv[-1])
        f = lambda p: complex(M[0, 0] * p.real + M[0, 1] * p.imag + M[0, 2], M[1, 0] * p.real + M[1, 1] * p.imag + M[1, 2])
        mag = float(sv[0]) * (1 + math.hypot(M[0, 2], M[1, 2]) / pos)
        trivial = bool(np.all(M == np.identity(3)))
        Marg = M
        if all(fct[0] in ('integer', 'reflect_x', 'reflect_y', 'reflect_diag', 'identity') for fct in case['M']) and np.all(M == np.round(M)):
            Marg = M.astype(int)
            ctx.count('M:integer_typed_array')
        res = ctx.lib('transform/' + kind, transform, curve, Marg)
    if not trivial and len({tuple(p) for s in specs for p in gen.spec_points(s)}) >= 2:
        ctx.nontrivial()

    # -- result has the same structure ---------------------------------------------------------
    rsegs = list(res) if is_path else [res]
    ctx.check(len(rsegs) == len(segs), 'structure/len', '%s changed the number of segments %d -> %d' % (op, len(segs), len(rsegs)))
    for a, b in zip(segs, rsegs):
        same = type(a) is type(b)
        ctx.check(same, 'structure/type/%s/%s' % (op, type(a).__name__), '%s turned %s into %s' % (op, type(a).__name__, type(b).__name__))
    # -- point-wise commutation ------------------------------------------------------------------------
    # scaled() goes through the power basis and back (bez2poly / poly2bez): a few more roundings than the other operations
    bez_tol = (8192 if op in ('scaled', 'scaled_xy') else 1024) * EPS * pos * mag * max(1.0, cond)
    arc_tol = ((2e-4 if degenerate else 1e-7) * size * max(1.0, ecc) * mag * cond + bez_tol)
    for a, b, sp in zip(segs, rsegs, specs):
        tol = arc_tol if sp[0] == 'A' else bez_tol
        cls = '%s/%s' % (op, sp[0])
        if op == 'transform':
            cls += '/' + '+'.join(sorted({fct[0] for fct in case['M']} - {'identity', 'translation'}))[:60]
        for t, src in zip(TG + case['ts'], src_pts[segs.index(a) if False else [id(x) for x in segs].index(id(a))]):
            want = f(src)
            got = complex(b.point(t))
            ctx.check(abs(got - want) <= tol, 'commute/' + cls,
                      '%s: result.point(%r)=%r but mapped point=%r (|diff|=%.3g, tol %.3g)' % (op, t, got, want, abs(got - want), tol))
    # -- an arc of the result is a consistent arc: its stored end points are the ends of the curve it traces (C04) ----------
    for b, sp in zip(rsegs, specs):
        if sp[0] == 'A':
            ctx.check(abs(complex(b.point(0.0)) - complex(b.start)) <= arc_tol * 4 and abs(complex(b.point(1.0)) - complex(b.end)) <= arc_tol * 4,
                      'arc_inconsistent/' + op, '%s: the resulting arc has start %r / end %r but point(0) = %r / point(1) = %r'
                      % (op, b.start, b.end, b.point(0.0), b.point(1.0)))
    if is_path and any(a[-1] != b_[1] and abs(gen.C(a[-1]) - gen.C(b_[1])) <= 1e-5 * size for a, b_ in zip(specs, specs[1:])):
        ctx.count('path:near_miss_joint')
    # -- joints stay joined exactly ---------------------------------------------------------------------
    if is_path:
        n = len(rsegs)
        for i in closed_joints:
            ctx.check(rsegs[i].end == rsegs[(i + 1) % n].start, 'joint_opened/%s/%s' % (op, 'closing' if i == n - 1 else 'inner'),
                      '%s: joint %d was exactly closed (%r) and is now %r -> %r' % (op, i, segs[i].end, rsegs[i].end, rsegs[(i + 1) % n].start))
        if gen.path_is_closed(specs):
            ctx.check(res.iscontinuous() and res.isclosed(), 'closed_path_opened/' + op, '%s of a closed path is no longer closed' % op)
