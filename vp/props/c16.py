"""C16 -- Observations after any mutation history equal those of a freshly built object."""
import itertools
import math

import numpy as np
from hypothesis import strategies as st

from vp import gen

ID = 'C16'
RULE = ("histories as data: lists of up to 40 operations over a Path (item/slice assignment, insert, append, extend, +=, del item/"
        "slice, pop, remove, reverse, assigning start/end) interleaved with queries (length, length(T0,T1), length(error, "
        "min_depth), point, T2t, t2T, start, end, bbox, d (all options), ==, hash, iscontinuous, len); after every step a battery of "
        "queries on the mutated path must equal the same queries on Path(*current segments); the segment list must equal a Python "
        "list model. Exhaustive: over a 24-operation alphabet on a pool of 4 segments, quick = all histories of depth <= 2 and every third of "
        "depth 3, thorough = all of depth <= 3 and every sixth of depth 4. Segment histories: reassign control points / length with other tolerances / reversed. Equality-hash pairs built "
        "through different routes. Both configurations. Non-trivial = history with a query, then a mutation, then a query; distinct "
        "by history hash.")
ASSUMPTIONS = ["mutating a member segment directly is not 'through the Path's own interface' and is only done in the segment histories",
               "length with tolerance arguments: the answer must be at least as accurate as a fresh object's answer for the same arguments "
               "(reusing a tighter cached value is allowed); all other queries compare with == / same exception type"]
# coverage-guided second engine (atheris), thorough tier only: (shards, libFuzzer runs per shard)
FUZZ = {'thorough': (16, 12000)}
RULE += " Also: Tolerance histories inside the quadratic's numerically integrated branch; reassignments to hash-colliding values."   # added after the seeded-change rounds (DESIGN.md section 10)
CONFIGS = ['scipy', 'noscipy']
BUDGET = {'quick': {'scipy': 700, 'noscipy': 300}, 'thorough': {'scipy': 20000, 'noscipy': 6000}}
EXHAUSTIVE_NOTE = "24-operation alphabet, per configuration: quick = all sequences of depth <= 2 + a deterministic third of depth 3; thorough = all of depth <= 3 + a sixth of depth 4"
REQUIRED = ['op:set', 'op:setslice', 'op:insert', 'op:append', 'op:extend', 'op:iadd', 'op:del', 'op:delslice', 'op:pop', 'op:remove',
            'op:reverse', 'op:set_start', 'op:set_end', 'q:length_tol', 'seg_history', 'seg_history_hash_collision', 'eqhash_pairs', 'exhaustive_history']
CASE_TIMEOUT = 120
TIME_LIMIT = {'quick': 250, 'thorough': 3300}

EPS = 2.0 ** -52

# a small pool for the exhaustive alphabet (kept cheap: lines, one quadratic, one cubic)
POOL = [['L', [0.0, 0.0], [3.0, 4.0]], ['L', [3.0, 4.0], [3.0, 0.0]], ['Q', [3.0, 0.0], [5.0, 2.0], [6.0, 0.0]],
        ['C', [6.0, 0.0], [7.0, 3.0], [9.0, -3.0], [10.0, 0.0]]]
PTS = [[1.0, 1.0], [-2.0, 0.5], [10.0, 0.0]]
ALPHABET = ([['append', POOL[i]] for i in range(4)] + [['insert', 0, POOL[3]], ['insert', 1, POOL[0]], ['set', 0, POOL[2]], ['set', -1, POOL[1]],
            ['del', 0], ['del', -1], ['pop', -1], ['reverse'], ['extend', [POOL[1], POOL[2]]], ['iadd', [POOL[3]]],
            ['setslice', 0, 1, [POOL[3], POOL[0]]], ['delslice', 0, 2], ['remove', 0],
            ['set_start', PTS[0]], ['set_end', PTS[1]], ['set_start', PTS[2]],
            ['q_length'], ['q_length_tol', 1e-3, 2], ['q_point', 0.6], ['q_length_T', 0.2, 0.9]])


def exhaustive(tier, config):
    depth = 3 if tier == 'quick' else 4
    for d in range(1, depth + 1):
        for seq in itertools.product(range(len(ALPHABET)), repeat=d):
            # keep the enumeration affordable: the deepest level is thinned deterministically in the quick tier
            if tier == 'quick' and d == 3 and (seq[0] * 7 + seq[1] * 3 + seq[2]) % 3 != 0:
                continue
            if tier == 'thorough' and d == 4 and (seq[0] + seq[1] * 5 + seq[2] * 3 + seq[3]) % 6 != 0:
                continue
            yield {'kind': 'exh', 'seq': list(seq)}


seg_s = gen.any_seg_spec(scale_strategy=st.sampled_from([1.0, 1.0, 1e2]), arcs=True)
pt_s = gen.point()
idx_s = st.integers(-6, 6)


@st.composite
def op_s(draw):
    k = draw(st.sampled_from(['set', 'setslice', 'insert', 'append', 'extend', 'iadd', 'del', 'delslice', 'pop', 'remove', 'reverse',
                              'set_start', 'set_end', 'q_length', 'q_length', 'q_length_T', 'q_length_tol', 'q_point', 'q_T2t', 'q_t2T',
                              'q_d', 'q_bbox']))
    if k in ('set', 'insert'):
        return [k, draw(idx_s), draw(seg_s)]
    if k == 'setslice':
        return [k, draw(idx_s), draw(idx_s), draw(st.lists(seg_s, min_size=0, max_size=2))]
    if k == 'append':
        return [k, draw(seg_s)]
    if k in ('extend', 'iadd'):
        return [k, draw(st.lists(seg_s, min_size=0, max_size=2))]
    if k in ('del', 'pop', 'remove'):
        return [k, draw(idx_s)]
    if k == 'delslice':
        return [k, draw(idx_s), draw(idx_s)]
    if k in ('set_start', 'set_end'):
        return [k, draw(pt_s)]
    if k == 'q_length_T':
        a, b = sorted([draw(gen.floats_in(0.0, 1.0)), draw(gen.floats_in(0.0, 1.0))])
        return [k, a, b]
    if k == 'q_length_tol':
        return [k, draw(st.sampled_from([1e-12, 1e-6, 1e-3, 1e-1])), draw(st.sampled_from([0, 2, 5, 8]))]
    if k in ('q_point', 'q_T2t'):
        return [k, draw(gen.floats_in(0.0, 1.0))]
    if k == 'q_t2T':
        return [k, draw(idx_s), draw(gen.floats_in(0.0, 1.0))]
    if k == 'q_d':
        return [k, draw(st.integers(0, 7))]
    return [k]


@st.composite
def seg_history(draw):
    b = draw(gen.bezier_spec(scale_strategy=st.sampled_from([1.0, 1.0, 1e2]),
                             classes=draw(st.sampled_from([None, None, ['nearlinear'], ['generic']]))))
    if draw(st.integers(0, 3)) == 0:
        # the same length asked first loosely, then tightly (and the other way round)
        e1, d1 = draw(st.sampled_from([(1e-1, 0), (1e-3, 2), (1e-12, 5)]))
        e2, d2 = draw(st.sampled_from([(1e-12, 5), (1e-10, 6), (1e-1, 0)]))
        return {'kind': 'seg', 'spec': b['spec'], 'ops': [['length_tol', e1, d1], ['length_tol', e2, d2], ['length'], ['reversed_length']]}
    ops = draw(st.lists(st.one_of(
        st.tuples(st.just('set'), st.integers(0, 3), pt_s).map(list),
        st.just(['length']),
        st.tuples(st.just('length_tol'), st.sampled_from([1e-12, 1e-6, 1e-3, 1e-1]), st.sampled_from([0, 2, 5, 8])).map(list),
        st.tuples(st.just('length_t'), gen.floats_in(0.0, 0.5), gen.floats_in(0.5, 1.0)).map(list),
        st.just(['reversed_length']), st.just(['point']), st.just(['bbox']), st.just(['poly'])), min_size=2, max_size=10))
    return {'kind': 'seg', 'spec': b['spec'], 'ops': ops}


@st.composite
def seg_collision_history(draw):
    """a control point is reassigned to a value with the same Python hash (hash(-1) == hash(-2); hash(x + 0j) == hash((x - 1000003) + 1j)):
    an object that recognises its own state by a hash must not mistake the new state for the old one"""
    deg = draw(st.sampled_from([1, 2, 3, 3]))
    pts = [list(draw(st.tuples(st.integers(-6, 6), st.integers(-6, 6)))) for _ in range(deg + 1)]
    pts = [[float(p[0]) + 0.5 * i, float(p[1])] for i, p in enumerate(pts)]       # distinct points
    i = draw(st.integers(0, deg))
    how = draw(st.sampled_from(['minus_one_real', 'minus_one_imag', 'complex_pair']))
    if how == 'minus_one_real':
        pts[i][0], new = -1.0, [-2.0, pts[i][1]]
    elif how == 'minus_one_imag':
        pts[i][1], new = -1.0, [pts[i][0], -2.0]
    else:
        x = float(draw(st.integers(-5, 5)))
        pts[i], new = [x, 0.0], [x - 1000003.0, 1.0]
    q = draw(st.sampled_from([['length'], ['bbox'], ['point'], ['poly']]))
    return {'kind': 'seg', 'spec': ['LQC'[deg - 1]] + pts, 'ops': [q, ['length'], ['set', i, new], ['length'], q, ['reversed_length']], 'collision': how}


@st.composite
def seg_tolerance_history(draw):
    """a nearly (but visibly not) uniform-speed quadratic/cubic whose length is asked loosely, then tightly: the case
    where tolerance arguments change the value in the pure-Python fallback"""
    deg = draw(st.sampled_from([2, 2, 3]))
    sc = draw(st.sampled_from([1.0, 1e2]))
    a, b = draw(gen.point(sc)), draw(gen.point(sc))
    if a == b:
        b = [b[0] + sc, b[1]]
    pts = [[a[0] + (b[0] - a[0]) * i / float(deg), a[1] + (b[1] - a[1]) * i / float(deg)] for i in range(deg + 1)]
    k = draw(st.sampled_from([3e-2, 1e-2, 3e-3, 1e-3, 3e-4]))
    q = draw(gen.point(sc))
    pts[1] = [pts[1][0] + k * (q[0] + sc), pts[1][1] + k * (q[1] - sc)]
    if deg == 2 and draw(st.booleans()):
        # inside the quadratic's "nearly uniform speed" branch (|start - 2 control + end| < 1e-3 |2 (control - start)|), where the
        # numerical integration and hence the tolerance arguments are used, but bent enough for a loose answer to differ visibly
        delta = draw(st.sampled_from([9e-4, 6e-4, 3e-4]))
        ch = complex(b[0] - a[0], b[1] - a[1])
        off = 0.5 * delta * ch * 1j
        pts[1] = [(a[0] + b[0]) / 2 + off.real, (a[1] + b[1]) / 2 + off.imag]
    e1, d1 = draw(st.sampled_from([(1e-1, 0), (1e-2, 1), (1e-3, 2)]))
    e2, d2 = draw(st.sampled_from([(1e-12, 5), (1e-10, 5), (1e-12, 7)]))
    ops = [['length_tol', e1, d1], ['length_tol', e2, d2], ['length'], ['reversed_length']]
    if draw(st.booleans()):
        ops = [['length_tol', e2, d2], ['length_tol', e1, d1], ['length']]
    return {'kind': 'seg', 'spec': ['LQC'[deg - 1]] + pts, 'ops': ops}


@st.composite
def eqhash_case(draw):
    specs = draw(gen.chain_specs(min_size=1, max_size=4, scale=1.0, closed=draw(st.booleans())))
    route = draw(st.sampled_from(['parse_d', 'parse_d_Z', 'float_vs_int', 'numpy', 'reversed_twice', 'slice_copy', 'arc_enlarged', 'parse_rel']))
    return {'kind': 'eqhash', 'segs': specs, 'route': route}


def strategy(tier, config):
    @st.composite
    def hist(draw):
        init = draw(st.lists(seg_s, min_size=0, max_size=3))
        ops = draw(st.lists(op_s(), min_size=2, max_size=40 if tier == 'thorough' else 25))
        return {'kind': 'hist', 'init': init, 'ops': ops}
    return st.one_of(hist(), hist(), hist(), seg_history(), seg_tolerance_history(), eqhash_case(), seg_collision_history())


# ---------------------------------------------------------------------------
# helpers
# ---------------------------------------------------------------------------

def outcome(fn, *a, **k):
    """('ok', value) or ('exc', exception type name)"""
    try:
        return ('ok', fn(*a, **k))
    except Exception as e:
        return ('exc', type(e).__name__)


def same(a, b):
    if a[0] != b[0]:
        return False
    if a[0] == 'exc':
        return a[1] == b[1]
    x, y = a[1], b[1]
    try:
        if isinstance(x, float) and isinstance(y, float) and math.isnan(x) and math.isnan(y):
            return True
        r = (x == y)
        if isinstance(r, np.ndarray):
            return bool(r.all())
        return bool(r)
    except Exception:
        return repr(x) == repr(y)


def battery(ctx, path, where):
    """compare a fixed set of queries on `path` with the same queries on a fresh Path of its current segments"""
    from svgpathtools import Path
    fresh = Path(*list(path))
    qs = [('len', lambda p: len(p)), ('start', lambda p: p.start), ('end', lambda p: p.end),
          ('iscontinuous', lambda p: p.iscontinuous()), ('length', lambda p: p.length()), ('point(0.37)', lambda p: p.point(0.37)),
          ('point(1)', lambda p: p.point(1.0)), ('T2t(0.81)', lambda p: p.T2t(0.81)), ('bbox', lambda p: p.bbox()),
          ('d', lambda p: p.d()), ('d(closed,rel)', lambda p: p.d(use_closed_attrib=True, rel=True))]
    for name, q in qs:
        a, b = outcome(q, path), outcome(q, fresh)
        if not same(a, b):
            ctx.fail('stale/%s/after_%s' % (name.split('(')[0], where), 'after %s: %s gives %r on the mutated path but %r on a fresh path of the same segments'
                     % (where, name, a, b))
    ctx.check(path == fresh and not (path != fresh), 'eq_fresh/after_' + where, 'mutated path != fresh path of its own segments')
    if len(path):
        ctx.check(hash(path) == hash(fresh), 'hash_fresh/after_' + where, 'equal paths hash differently')


def accuracy_ok(got, fresh_req, truth, L):
    return abs(got - truth) <= abs(fresh_req - truth) + 1e-9 * abs(L) + 1e-300


def apply_op(ctx, path, model, op, build):
    """apply op to the library path and to the list model; returns a label"""
    from svgpathtools import Path
    k = op[0]
    n = len(model)

    def idx(i):
        # negative values address from the end (as Python indices do), so that both index forms are exercised
        if not n:
            return 0
        return (i % n) if i >= 0 else -((-i - 1) % n) - 1
    if k == 'set':
        if not n:
            return None
        s = build(op[2])
        path[idx(op[1])] = s
        model[idx(op[1])] = s
    elif k == 'setslice':
        i, j = sorted([idx(op[1]) % n, idx(op[2]) % n]) if n else (0, 0)
        segs = [build(s) for s in op[3]]
        path[i:j] = segs
        model[i:j] = segs
    elif k == 'insert':
        s = build(op[2])
        i = op[1]      # list.insert accepts any integer
        path.insert(i, s)
        model.insert(i, s)
    elif k == 'append':
        s = build(op[1])
        path.append(s)
        model.append(s)
    elif k == 'extend':
        segs = [build(s) for s in op[1]]
        path.extend(segs)
        model.extend(segs)
    elif k == 'iadd':
        segs = [build(s) for s in op[1]]
        path += segs
        model += segs
    elif k == 'del':
        if not n:
            return None
        del path[idx(op[1])]
        del model[idx(op[1])]
    elif k == 'delslice':
        i, j = sorted([idx(op[1]) % n, idx(op[2]) % n]) if n else (0, 0)
        del path[i:j]
        del model[i:j]
    elif k == 'pop':
        if not n:
            return None
        a = path.pop(idx(op[1]))
        b = model.pop(idx(op[1]))
        ctx.check(a is b, 'pop/wrong_item', 'pop returned a different segment than the list model')
    elif k == 'remove':
        if not n:
            return None
        target = model[idx(op[1])]
        path.remove(target)
        model.remove(target)
    elif k == 'reverse':
        path.reverse()
        model.reverse()
    elif k == 'set_start':
        from svgpathtools import Arc, Line
        if not n or isinstance(model[0], Arc) or (isinstance(model[0], Line) and complex(model[0].end) == gen.C(op[1])):
            return None   # an Arc cannot be re-pointed by assigning an end point (its derived parameters are fixed at construction)
        path.start = gen.C(op[1])
    elif k == 'set_end':
        from svgpathtools import Arc, Line
        if not n or isinstance(model[-1], Arc) or (isinstance(model[-1], Line) and complex(model[-1].start) == gen.C(op[1])):
            return None
        path.end = gen.C(op[1])
    else:
        return None
    return k


def run_query(ctx, path, op):
    from svgpathtools import Path
    k = op[0]
    fresh = Path(*list(path))
    n = len(path)
    if k == 'q_length':
        q = lambda p: p.length()
    elif k == 'q_length_T':
        q = lambda p: p.length(op[1], op[2])
    elif k == 'q_point':
        q = lambda p: p.point(op[1])
    elif k == 'q_T2t':
        q = lambda p: p.T2t(op[1])
    elif k == 'q_t2T':
        q = lambda p: p.t2T((op[1] % n) if n else 0, op[2])
    elif k == 'q_d':
        o = op[1]
        q = lambda p: p.d(useSandT=bool(o & 1), use_closed_attrib=bool(o & 2), rel=bool(o & 4))
    elif k == 'q_bbox':
        q = lambda p: p.bbox()
    elif k == 'q_length_tol':
        ctx.count('q:length_tol')
        err, md = op[1], op[2]
        a = outcome(lambda p: p.length(error=err, min_depth=md), path)
        b = outcome(lambda p: p.length(error=err, min_depth=md), Path(*[_clone(s) for s in path]))
        if a[0] != b[0] or (a[0] == 'exc' and a[1] != b[1]):
            ctx.fail('stale/length_tol/outcome', 'length(error=%r, min_depth=%r): %r on the mutated path, %r on a fresh one' % (err, md, a, b))
        if a[0] == 'ok':
            truth = Path(*[_clone(s) for s in path]).length(error=1e-13, min_depth=9)
            ctx.check(accuracy_ok(float(a[1]), float(b[1]), float(truth), float(truth)), 'stale/length_tol/less_accurate_than_fresh',
                      'length(error=%r, min_depth=%r)=%r on the mutated path; a fresh path gives %r, the accurate value is %r' % (err, md, a[1], b[1], truth))
        return
    else:
        return
    a, b = outcome(q, path), outcome(q, fresh)
    if not same(a, b):
        ctx.fail('stale/%s' % k, '%r gives %r on the mutated path but %r on a fresh path of the same segments' % (op, a, b))


def _clone(seg):
    return gen.build_seg(gen.seg_spec_of(seg))


def check(case, ctx):
    k = case['kind']
    if k == 'seg':
        return check_seg_history(case, ctx)
    if k == 'eqhash':
        return check_eqhash(case, ctx)
    from svgpathtools import Path
    if k == 'exh':
        ops = [ALPHABET[i] for i in case['seq']]
        init = [POOL[0], POOL[1]]
        ctx.count('exhaustive_history')
    else:
        ops, init = case['ops'], case['init']
    build = gen.build_seg
    for s in init + [x for op in ops for x in _specs_in(op)]:
        if s[0] == 'A' and s[1] == s[6]:
            ctx.discard('zero-chord arc')
    model = [build(s) for s in init]
    path = Path(*model)
    model = list(model)
    seen_query = False
    seen_mut_after_query = False
    battery(ctx, path, 'init')
    for op in ops:
        name = op[0]
        if name.startswith('q_'):
            qname = name
            run_query(ctx, path, op)
            if seen_mut_after_query:
                ctx.nontrivial()
            seen_query = True
            continue
        label = ctx.lib('op/' + name, apply_op, ctx, path, model, op, build)
        if label is None:
            continue
        ctx.count('op:' + label)
        if seen_query:
            seen_mut_after_query = True
        ctx.check(len(path) == len(model) and all(a is b for a, b in zip(path, model)) or label in ('set_start', 'set_end'),
                  'list_model/' + label, 'after %r the segment list differs from the Python list model' % (op,))
        if label == 'set_start' and len(path):
            ctx.check(complex(path[0].start) == gen.C(op[1]) and complex(path.start) == gen.C(op[1]), 'set_start/not_applied', 'path.start assignment not visible')
        if label == 'set_end' and len(path):
            ctx.check(complex(path[-1].end) == gen.C(op[1]) and complex(path.end) == gen.C(op[1]), 'set_end/not_applied', 'path.end assignment not visible')
        battery(ctx, path, label)
    if k == 'exh' and seen_mut_after_query:
        ctx.nontrivial()


def _specs_in(op):
    out = []
    for x in op[1:]:
        if isinstance(x, list) and x and isinstance(x[0], str):
            out.append(x)
        elif isinstance(x, list) and x and isinstance(x[0], list) and x[0] and isinstance(x[0][0], str):
            out.extend(x)
    return out


def check_seg_history(case, ctx):
    spec = case['spec']
    seg = gen.build_seg(spec)
    cur = [list(p) for p in spec[1:]]
    names = {'L': ['start', 'end'], 'Q': ['start', 'control', 'end'], 'C': ['start', 'control1', 'control2', 'end']}[spec[0]]
    ctx.count('seg_history')
    if case.get('collision'):
        ctx.count('seg_history_hash_collision')
    did_query = did_mut = False
    for op in case['ops']:
        fresh = gen.build_seg([spec[0]] + cur)
        k = op[0]
        if k == 'set':
            i = op[1] % len(names)
            setattr(seg, names[i], gen.C(op[2]))
            cur[i] = list(op[2])
            if spec[0] == 'L' and cur[0] == cur[1]:
                setattr(seg, names[1], gen.C([op[2][0] + 1.0, op[2][1]]))
                cur[1] = [op[2][0] + 1.0, op[2][1]]
            if did_query:
                did_mut = True
            continue
        if did_mut:
            ctx.nontrivial()
        did_query = True
        if k == 'length':
            a, b = outcome(seg.length), outcome(fresh.length)
        elif k == 'length_t':
            a, b = outcome(seg.length, op[1], op[2]), outcome(fresh.length, op[1], op[2])
        elif k == 'reversed_length':
            a, b = outcome(lambda s: s.reversed().length(), seg), outcome(lambda s: s.reversed().length(), fresh)
        elif k == 'point':
            a, b = outcome(seg.point, 0.3), outcome(fresh.point, 0.3)
        elif k == 'bbox':
            a, b = outcome(seg.bbox), outcome(fresh.bbox)
        elif k == 'poly':
            a, b = outcome(lambda s: list(s.poly().coeffs), seg), outcome(lambda s: list(s.poly().coeffs), fresh)
        elif k == 'length_tol':
            a = outcome(lambda s: s.length(error=op[1], min_depth=op[2]), seg)
            b = outcome(lambda s: s.length(error=op[1], min_depth=op[2]), fresh)
            if a[0] == 'ok' and b[0] == 'ok':
                truth = gen.build_seg([spec[0]] + cur).length(error=1e-13, min_depth=9)
                ctx.check(accuracy_ok(float(a[1]), float(b[1]), float(truth), float(truth)), 'segment/length_tol/less_accurate_than_fresh/' + spec[0],
                          '%s.length(error=%r, min_depth=%r)=%r after the history; a fresh segment gives %r, the accurate value is %r'
                          % (spec[0], op[1], op[2], a[1], b[1], truth))
                continue
        if k in ('length', 'length_t', 'reversed_length') and a[0] == 'ok' and b[0] == 'ok':
            # a value cached with tighter tolerances may legitimately be reused
            truth = gen.build_seg([spec[0]] + cur)
            tv = truth.length(error=1e-13, min_depth=9) if k != 'length_t' else truth.length(op[1], op[2], error=1e-13, min_depth=9)
            ctx.check(accuracy_ok(float(a[1]), float(b[1]), float(tv), float(tv)), 'segment/stale/%s/%s' % (k, spec[0]),
                      '%s %s gives %r after the history but a fresh segment gives %r (accurate %r)' % (spec[0], k, a[1], b[1], tv))
            continue
        if not same(a, b):
            ctx.fail('segment/stale/%s/%s' % (k, spec[0]), '%s %s gives %r after the history but %r on a fresh segment' % (spec[0], k, a, b))


def check_eqhash(case, ctx):
    from svgpathtools import Path, parse_path, Line, QuadraticBezier, CubicBezier, Arc
    specs = case['segs']
    for s in specs:
        if s[0] == 'A' and s[1] == s[6]:
            ctx.discard('zero-chord arc')
        if s[0] == 'L' and s[1] == s[2]:
            ctx.discard('zero-length line')
    p = gen.build_path(specs)
    r = case['route']
    ctx.count('eqhash_pairs')
    if r == 'parse_d':
        q = parse_path(p.d())
    elif r == 'parse_d_Z':
        q = parse_path(p.d(use_closed_attrib=True))
    elif r == 'parse_rel':
        q = parse_path(p.d(rel=True))
    elif r == 'float_vs_int':
        def conv(z):
            z = complex(z)
            re = int(z.real) if z.real == int(z.real) else z.real
            im = int(z.imag) if z.imag == int(z.imag) else z.imag
            return re if im == 0 else complex(re, im)
        segs = []
        for s in p:
            if isinstance(s, Arc):
                segs.append(s)
            else:
                segs.append(type(s)(*[conv(z) for z in s.bpoints()]))
        q = Path(*segs)
    elif r == 'numpy':
        segs = []
        for s in p:
            if isinstance(s, Arc):
                segs.append(Arc(np.complex128(s.start), s.radius, s.rotation, s.large_arc, s.sweep, np.complex128(s.end)))
            else:
                segs.append(type(s)(*[np.complex128(z) for z in s.bpoints()]))
        q = Path(*segs)
    elif r == 'reversed_twice':
        q = p.reversed().reversed()
    elif r == 'slice_copy':
        q = Path(*p[:])
    else:  # arc_enlarged: an arc re-created from its own (possibly enlarged) parameters
        segs = [Arc(s.start, s.radius, s.rotation, s.large_arc, s.sweep, s.end) if isinstance(s, Arc) else s for s in p]
        q = Path(*segs)
    ctx.nontrivial()
    if p == q:
        ctx.count('eqhash_equal_pairs')
        ctx.check(hash(p) == hash(q), 'eq_without_equal_hash/path/' + r, 'paths compare equal but hash(p)=%r hash(q)=%r (route %s)' % (hash(p), hash(q), r))
        ctx.check(q == p and not (p != q), 'eq_asymmetric/' + r, '== is not symmetric / consistent with !=')
    for a, b in zip(p, q):
        if type(a) is type(b) and a == b:
            ctx.check(hash(a) == hash(b), 'eq_without_equal_hash/segment/%s/%s' % (type(a).__name__, r),
                      '%r == %r but the hashes differ' % (a, b))
