"""C05 -- Path parameter T, segment parameter t and arc length fractions are coherent."""
import math

from hypothesis import strategies as st

from vp import gen

ID = 'C05'
RULE = ("paths of 1-8 segments of any type mix, segment sizes differing by up to 1e7, zero-length segments in non-leading "
        "positions, continuous / discontinuous, open / closed; T from {0, 1, uniform, harness-computed cumulative "
        "fractions c_k and their +-1..2 ulp neighbours, nextafter(1,0) and its predecessor, smallest positive doubles}. "
        "Oracle: fractions recomputed by the harness from seg.length(); T2t/point/t2T coherence with both neighbours "
        "accepted within 8 ulp of a boundary; structural predicates recomputed from end points. Non-trivial = >=2 "
        "segments and an interior T; distinct by (path, T) hash.")
ASSUMPTIONS = ["segment lengths are taken from seg.length() (C06 owns their correctness)",
               "paths have positive total length; the leading segment is not zero-length"]
# coverage-guided second engine (atheris), thorough tier only: (shards, libFuzzer runs per shard)
FUZZ = {'thorough': (16, 20000)}
RULE += ' Also: Half of the paths under test are derived from an already-queried path (scaled, rotated, translated, reversed) or edited in place after queries; a small no-scipy configuration and loop segments are included; the lengths taken over from the library are bounded by chord polyline and control polygon.'   # added after the seeded-change rounds (DESIGN.md section 10)
CONFIGS = ['scipy', 'noscipy']
BUDGET = {'quick': {'scipy': 6000, 'noscipy': 160}, 'thorough': {'scipy': 150000, 'noscipy': 6000}}
CASE_TIMEOUT = 60

EPS = 2.0 ** -52

# routes by which the Path object under test comes into being: always after the caches of the object it is derived
# from (or that is edited in place) were filled by queries.  The coherence claims are then checked against the
# segments the resulting object actually holds.
VIAS = ['scaled', 'scaled_xy', 'rotated', 'translated', 'approx_arcs_cubics', 'approx_arcs_quads', 'setitem_last_negative',
        'setitem_first_negative', 'setitem_last', 'extend', 'insert_front', 'delete_last', 'set_end', 'set_start']


REQUIRED = ['loop_segment', 'via_reversed'] + ['via:' + v for v in VIAS] + [ 'near_miss_joint', 'T:boundary', 'T:near_one', 'zero_length_segment', 'discontinuous', 'closed', 'T:interior']


def _warm(ctx, p, arg):
    ctx.lib('warm', p.length)
    ctx.lib('warm', p.point, 0.3)
    if arg % 2:
        ctx.lib('warm', p.T2t, 0.7)


def _derive(case, ctx, specs):
    """returns the Path under test for case['via'] (None: route not applicable to these segments)"""
    from svgpathtools import Line
    via = case['via']
    a, b, k = case.get('via_arg', [2.0, 0.25, 0])
    has_arc = any(sp[0] == 'A' for sp in specs)
    n = len(specs)
    if via in ('scaled', 'scaled_xy', 'rotated', 'translated', 'approx_arcs_cubics', 'approx_arcs_quads'):
        p0 = ctx.lib('build', gen.build_path, specs)
        _warm(ctx, p0, k)
        if via == 'scaled':
            return ctx.lib('scaled', p0.scaled, a)
        if via == 'scaled_xy':
            if has_arc:
                return None
            return ctx.lib('scaled', p0.scaled, a, b)
        if via == 'rotated':
            return ctx.lib('rotated', p0.rotated, 40.0 * a)
        if via == 'translated':
            return ctx.lib('translated', p0.translated, complex(a, b))
        if not has_arc:
            return None
        ctx.lib(via, p0.approximate_arcs_with_cubics if via.endswith('cubics') else p0.approximate_arcs_with_quads)
        return p0
    segs = [gen.build_seg(sp) for sp in specs]
    size = gen.spec_size(specs)
    other = Line(complex(size * 3, size), complex(-size, size * 2.5))
    if via in ('setitem_last_negative', 'setitem_last', 'setitem_first_negative'):
        if n < 2:
            return None
        first = via == 'setitem_first_negative'
        from svgpathtools import Path
        p0 = ctx.lib('build', Path, *([other] + segs[1:] if first else segs[:-1] + [other]))
        _warm(ctx, p0, k)
        if first:
            p0[-n] = segs[0]
        elif via == 'setitem_last':
            p0[n - 1] = segs[-1]
        else:
            p0[-1] = segs[-1]
        return p0
    from svgpathtools import Path
    if via == 'extend':
        if n < 2:
            return None
        j = 1 + k % (n - 1)
        p0 = ctx.lib('build', Path, *segs[:j])
        _warm(ctx, p0, k)
        p0.extend(segs[j:])
        return p0
    if via == 'insert_front':
        if n < 2:
            return None
        p0 = ctx.lib('build', Path, *segs[1:])
        if p0.length() > 0:
            _warm(ctx, p0, k)
        p0.insert(0, segs[0])
        return p0
    if via == 'delete_last':
        p0 = ctx.lib('build', Path, *(segs + [other]))
        _warm(ctx, p0, k)
        del p0[-1]
        return p0
    if via in ('set_end', 'set_start'):
        sp = specs[-1] if via == 'set_end' else specs[0]
        if sp[0] == 'A':
            return None
        p0 = ctx.lib('build', Path, *segs)
        _warm(ctx, p0, k)
        z = complex(size * 0.37 * a, size * 0.61 * b) + (p0.end if via == 'set_end' else p0.start)
        if via == 'set_end':
            p0.end = z
        else:
            p0.start = z
        return p0
    raise ValueError(via)


def strategy(tier, config):
    @st.composite
    def s(draw):
        if config == 'noscipy':
            # the pure-Python length fallback costs up to seconds per curved segment at large scales: small paths at unit scale
            specs = draw(gen.chain_specs(min_size=1, max_size=4, unequal=False, zero_len_prob=12, arcs=draw(st.integers(0, 3)) == 0,
                                         scale=draw(st.sampled_from([1e-2, 1.0, 1.0])), break_prob=draw(st.sampled_from([0, 0, 25]))))
        else:
            specs = draw(gen.chain_specs(min_size=1, max_size=8, unequal=True, zero_len_prob=12,
                                         break_prob=draw(st.sampled_from([0, 0, 25]))))
        if draw(st.integers(0, 5)) == 0:
            # one segment is a loop: a cubic that returns to its own start point (chord 0, positive length)
            i = draw(st.integers(0, len(specs)))
            at = specs[i][1] if i < len(specs) else specs[-1][-1]
            sz = gen.spec_size(specs) or 1.0
            a, b = draw(gen.floats_in(0.2, 1.0)) * sz, draw(gen.floats_in(0.2, 1.0)) * sz
            specs.insert(i, ['C', list(at), [at[0] + a, at[1] + b], [at[0] + a, at[1] - b], list(at)])
        ts = draw(st.lists(st.one_of(gen.floats_in(0.0, 1.0), st.sampled_from([0.0, 1.0, 0.5])), min_size=2, max_size=4))
        # boundary selectors: (segment index fraction, ulp offset)
        bsel = draw(st.lists(st.tuples(st.integers(0, 7), st.integers(-2, 2)), min_size=2, max_size=5))
        # near-miss joints: the next segment starts a hair away from where the previous one ended
        sc = gen.spec_size(specs)
        for i in range(1, len(specs)):
            if draw(st.integers(0, 9)) == 0 and specs[i][0] != 'A':
                d = draw(st.sampled_from(['ulp', 1e-12, 1e-9, 1e-6]))
                x = specs[i][1][0]
                nx = gen.nextafter_k(x, 1) if d == 'ulp' else x + d * sc
                if nx != x and len({tuple(p) for p in specs[i][1:]}) > 1:
                    specs[i][1] = [nx, specs[i][1][1]]
        via = draw(st.sampled_from(['direct', 'direct', 'direct', 'reversed_after_queries'] + VIAS))
        return {'segs': specs, 'ts': ts, 'bsel': [list(b) for b in bsel], 'via': via,
                'via_arg': [draw(st.sampled_from([2.0, 0.5, 3.0, -1.5, 0.3])), draw(st.sampled_from([0.25, 5.0, -2.0, 1.7])),
                            draw(st.integers(0, 7))]}
    return s()


def check(case, ctx):
    from svgpathtools import Path
    specs = case['segs']
    for sp in specs:
        if sp[0] in 'LA' and sp[1] == sp[-1] and sp[0] == 'A':
            ctx.discard('zero-chord arc')
        if sp[0] == 'A':
            # arcs whose chord is below ~1e-5 of their radii are not admissible geometry (C04's KF01: the span collapses or
            # becomes a full turn; a translation merges the end points and the constructor refuses the result)
            from vp.ref import arc_ref
            L = arc_ref.lam(sp[1], sp[2][0], sp[2][1], sp[3], sp[6])
            if not (1e-10 < L < 1e10):
                ctx.discard('arc chord/radius ratio extreme')
    if case.get('via') == 'reversed_after_queries':
        # the path under test is obtained from another path whose caches were already filled
        p0 = ctx.lib('build', gen.build_path, specs)
        ctx.lib('warm', p0.length)
        ctx.lib('warm', p0.point, 0.3)
        path = ctx.lib('reversed', p0.reversed)
        specs = [_rev_spec(sp) for sp in reversed(specs)]
        ctx.count('via_reversed')
        for a, b in zip(path, specs):
            ctx.check(gen.seg_spec_of(a)[:2] == b[:2] and gen.seg_spec_of(a)[-1] == b[-1], 'reversed/segments',
                      'reversed() segment %r, expected %r' % (a, b))
    elif case.get('via', 'direct') != 'direct':
        path = _derive(case, ctx, specs)
        if path is None:
            ctx.count('via_not_applicable')
            path = ctx.lib('build', gen.build_path, specs)
        else:
            ctx.count('via:' + case['via'])
            specs = [gen.seg_spec_of(sg) for sg in path]
    else:
        path = ctx.lib('build', gen.build_path, specs)
    n = len(path)
    lens = [ctx.lib('seg.length', seg.length) for seg in path]
    if not all(math.isfinite(l) and l >= 0 for l in lens):
        ctx.discard('segment length not finite (C06)')
    # the lengths are the library's own (C06 decides whether they are right), but a fraction table built on a length that is
    # not even between the chord polyline and the control polygon is not an arc-length fraction table
    for sp, l in zip(specs, lens):
        if sp[0] == 'A':
            continue
        zs = [gen.C(p) for p in sp[1:]]
        n_ = len(zs) - 1
        samp = [sum(math.comb(n_, i) * (1 - t) ** (n_ - i) * t ** i * zs[i] for i in range(n_ + 1)) for t in [j / 16.0 for j in range(17)]]
        lo = sum(abs(b - a) for a, b in zip(samp, samp[1:]))
        hi = sum(abs(b - a) for a, b in zip(zs, zs[1:]))
        mag = max(abs(z) for z in zs) + hi
        # (1e-11: lengths are computed to an absolute tolerance, LENGTH_ERROR = 1e-12, by design)
        # (1e-2: where the speed vanishes, length() is only accurate to C06's 5e-3 -- this is a sanity bound against gross errors)
        ctx.check(lo * (1 - 1e-2) - 64 * EPS * mag - 1e-11 <= l <= hi * (1 + 1e-2) + 64 * EPS * mag + 1e-11, 'segment_length_outside_trivial_bounds',
                  'segment %r reports length %r, but its 16-chord polyline is %r and its control polygon %r long' % (sp, l, lo, hi))
    if any(sp[0] == 'C' and sp[1] == sp[-1] and gen.pts_distinct(sp[1:]) for sp in specs):
        ctx.count('loop_segment')
    total = math.fsum(lens)
    if not total > 0 or lens[0] == 0:
        ctx.discard('zero total length or zero-length leading segment')
    fr = [l / total for l in lens]
    cum = [0.0]
    for f in fr:
        cum.append(cum[-1] + f)
    cont = gen.path_is_continuous(specs)
    if any(l == 0 for l in lens):
        ctx.count('zero_length_segment')
    if not cont:
        ctx.count('discontinuous')
    if any(a[-1] != b[1] and abs(gen.C(a[-1]) - gen.C(b[1])) <= 1e-5 * gen.spec_size(specs) for a, b in zip(specs, specs[1:])):
        ctx.count('near_miss_joint')
    if gen.path_is_closed(specs):
        ctx.count('closed')
    size = gen.spec_size(specs)
    pos = max(abs(p[0]) + abs(p[1]) for s in specs for p in gen.spec_points(s)) + size

    # -- T values ---------------------------------------------------------------------------------------
    Ts = [(t, 'uniform') for t in case['ts']]
    for idx, off in case['bsel']:
        k = idx % (n + 1)
        Ts.append((min(1.0, max(0.0, gen.nextafter_k(cum[k], off))), 'boundary'))
    one_m = math.nextafter(1.0, 0.0)
    Ts += [(one_m, 'near_one'), (math.nextafter(one_m, 0.0), 'near_one'), (5e-324, 'tiny'), (1e-300, 'tiny'),
           (0.0, 'end'), (1.0, 'end')]

    p0 = complex(ctx.lib('point(0)', path.point, 0.0))
    p1 = complex(ctx.lib('point(1)', path.point, 1.0))
    # Beziers reproduce their end points up to rounding; arcs to C04's accuracy (angles via acos)
    def end_tol(spec):
        return 2e-4 * gen.spec_size([spec]) if spec[0] == 'A' else 64 * EPS * pos * 8
    ctx.check(abs(p0 - complex(path[0].start)) <= end_tol(specs[0]), 'point0', 'point(0)=%r, start=%r' % (p0, path[0].start))
    ctx.check(abs(p1 - complex(path[-1].end)) <= end_tol(specs[-1]), 'point1', 'point(1)=%r, end=%r' % (p1, path[-1].end))
    ctx.check(complex(path.start) == complex(path[0].start) and complex(path.end) == complex(path[-1].end), 'start_end',
              'path.start/end differ from the first/last segment')

    for T, cls in Ts:
        ctx.count('T:' + cls)
        interior = 0.0 < T < 1.0
        if interior and cls in ('uniform',):
            ctx.count('T:interior')
        if n >= 2 and interior:
            ctx.nontrivial(key=[specs, T])
        kt = ctx.lib('T2t/%s' % cls, path.T2t, T)
        k, t = kt
        ctx.check(isinstance(k, int) and 0 <= k < n, 'T2t/index', 'T2t(%r) returned index %r' % (T, k))
        t = float(t)
        if T == 0.0:
            ctx.check(k == 0 and t == 0, 'T2t/0', 'T2t(0)=%r' % (kt,))
        elif T == 1.0:
            ctx.check(k == n - 1 and t == 1, 'T2t/1', 'T2t(1)=%r' % (kt,))
        else:
            # segment k must own T: c_k - slack <= T <= c_{k+1} + slack
            slack = 8 * EPS
            ctx.check(cum[k] - slack <= T <= cum[k + 1] + slack, 'T2t/wrong_segment',
                      'T2t(%r) -> segment %d, whose interval is [%r, %r]' % (T, k, cum[k], cum[k + 1]))
            if fr[k] > 0:
                want = (T - cum[k]) / fr[k]
                ctx.check(-8 * EPS / fr[k] <= t <= 1 + 8 * EPS / fr[k] and abs(t - want) <= 16 * EPS * (1 + T) / fr[k],
                          'T2t/t_value', 'T2t(%r) -> (%d, %r), expected t=%r (fraction %r)' % (T, k, t, want, fr[k]))
            else:
                # a zero-length segment owns the single value c_k (any t in [0,1] names the same point)
                ctx.count('zero_length_segment_selected_at_its_boundary')
            ctx.check(0.0 <= t <= 1.0, 'T2t/t_out_of_range', 'T2t(%r) -> t=%r outside [0,1]' % (T, t))
        # point(T) is the point of segment k at t
        pT = complex(ctx.lib('point/%s' % cls, path.point, T))
        pk = complex(path[k].point(t))
        speed = lens[k] * 4 + size
        ctx.check(abs(pT - pk) <= 64 * EPS * pos + 64 * EPS * speed / max(fr[k], 1e-300) * 0 + 1e-9 * 0 + _pt_tol(max(lens[k], gen.spec_size([specs[k]])), fr[k], pos),
                  'point_vs_T2t', 'point(%r)=%r but path[%d].point(%r)=%r' % (T, pT, k, t, pk))
        # t2T inverts T2t
        T_back = float(ctx.lib('t2T', path.t2T, k, t))
        ctx.check(abs(T_back - T) <= 16 * EPS, 't2T', 't2T(%d, %r)=%r, expected %r' % (k, t, T_back, T))
    # t2T also accepts the segment object when it is unique in the path
    k = len(path) // 2
    if sum(1 for s in path if s == path[k]) == 1 and lens[k] > 0:
        a = float(ctx.lib('t2T(seg)', path.t2T, path[k], 0.5))
        ctx.check(abs(a - (cum[k] + 0.5 * fr[k])) <= 16 * EPS, 't2T/by_segment', 't2T(path[%d], .5)=%r, expected %r' % (k, a, cum[k] + 0.5 * fr[k]))

    # -- structure ------------------------------------------------------------------------------------------
    ctx.check(bool(ctx.lib('iscontinuous', path.iscontinuous)) == cont, 'iscontinuous', 'iscontinuous()=%r, expected %r' % (path.iscontinuous(), cont))
    if cont:
        want_closed = specs[0][1] == specs[-1][-1]
        ctx.check(bool(ctx.lib('isclosed', path.isclosed)) == want_closed, 'isclosed', 'isclosed()=%r expected %r' % (path.isclosed(), want_closed))
    subs = ctx.lib('continuous_subpaths', path.continuous_subpaths)
    flat = [s for sp in subs for s in sp]
    ctx.check(len(flat) == n and all(a is b for a, b in zip(flat, path)), 'subpaths/concatenation',
              'continuous_subpaths() do not concatenate back to the path (%d vs %d segments)' % (len(flat), n))
    for sp in subs:
        ctx.check(len(sp) >= 1 and all(sp[i].end == sp[i + 1].start for i in range(len(sp) - 1)), 'subpaths/not_continuous',
                  'a returned subpath is not continuous')
    for a, b in zip(subs, subs[1:]):
        ctx.check(a[-1].end != b[0].start, 'subpaths/not_maximal', 'two consecutive subpaths could be merged')
    nbreaks = sum(1 for a, b in zip(specs, specs[1:]) if a[-1] != b[1])
    ctx.check(len(subs) == nbreaks + 1, 'subpaths/count', '%d subpaths for %d breaks' % (len(subs), nbreaks))


def _pt_tol(seg_len, frac, pos):
    # |dP/dt| <~ 4*len ; t is determined to ~8 eps / frac
    return 64 * EPS * (4 * seg_len / max(frac, 1e-300)) + 64 * EPS * pos


def _rev_spec(sp):
    if sp[0] == 'A':
        return ['A', sp[6], sp[2], sp[3], sp[4], 1 - sp[5], sp[1]]
    return [sp[0]] + list(reversed(sp[1:]))
