"""C08 -- bbox() contains the curve and every side of it is touched by the curve."""
import math

import numpy as np
from hypothesis import strategies as st

from vp import gen

ID = 'C08'
RULE = ("segments of every class (generic, collinear, repeated points, axis-aligned, cubics whose x or y polynomial is exactly or "
        "approximately -- degree elevation done in floats -- of lower degree, monotone curves; arcs of every rotation / flag "
        "combination crossing 0..4 axis extremes, class computed by the harness from the stored centre form) and paths. Oracle: "
        "reference extremes from independently computed critical points (numpy roots of the harness's own derivative "
        "coefficients polished by Newton; atan2-based critical angles for arcs) cross-checked by a 1025-point sample; "
        "containment and tightness within 1e-9*size; Path.bbox == component-wise union of seg.bbox. Non-trivial = at least "
        "one side attained strictly inside (0,1); distinct by segment hash.")
ASSUMPTIONS = ["point(t) is the reference curve (C03/C04); arcs are evaluated on the library's stored centre parameters",
               "tolerance 1e-9*size + 1e-11*|position| for Beziers; arcs 1e-7*size (2e-4*size in the exactly-fitting window, as in C04)"]
RULE += ' Also: Segments are re-checked after translated/reversed/rotated/in-place reassignment following a first bbox(); paths after moving their end through the Path interface.'   # added after the seeded-change rounds (DESIGN.md section 10)
CONFIGS = ['scipy']
BUDGET = {'quick': 16000, 'thorough': 300000}
REQUIRED = ['then:scaled_neg', 'then:translated', 'then:reversed', 'then:rotated', 'then:reassigned', 'kind:Q', 'kind:C', 'kind:A', 'kind:L', 'class:elevated', 'arc_extremes:0', 'arc_extremes:2', 'arc_extremes:4', 'path',
            'interior_extreme']

EPS = 2.0 ** -52
TS = np.linspace(0.0, 1.0, 1025)


def strategy(tier, config):
    @st.composite
    def s(draw):
        what = draw(st.sampled_from(['seg', 'seg', 'seg', 'seg', 'seg', 'path']))
        if what == 'path':
            return {'what': 'path', 'segs': draw(gen.chain_specs(min_size=2, max_size=5, unequal=draw(st.booleans()),
                                                                break_prob=draw(st.sampled_from([0, 20]))))}
        if draw(st.integers(0, 3)) == 0:
            a = draw(st.one_of(gen.arc_center_form(), gen.arc_center_form(), gen.arc_endpoint_form()))
            return {'what': 'seg', 'spec': a['spec'], 'tag': 'arc', 'then': draw(st.sampled_from(['none', 'none', 'translated', 'reversed', 'rotated', 'scaled_neg', 'scaled_neg_twice']))}
        b = draw(gen.bezier_spec(classes=['generic', 'generic', 'collinear', 'foldback', 'repeat_start', 'repeat_end', 'repeat_mid',
                                          'elevated', 'elevated', 'elevated', 'axis', 'symmetric']))
        return {'what': 'seg', 'spec': b['spec'], 'tag': b['tag'],
                'then': draw(st.sampled_from(['none', 'none', 'translated', 'reversed', 'rotated', 'reassigned', 'scaled_neg']))}
    return s()


def bez_eval(c, ts):
    """Bernstein evaluation of real control values c at numpy array ts (de Casteljau, vectorised)"""
    cur = [np.full_like(ts, v, dtype=float) for v in c]
    while len(cur) > 1:
        cur = [(1 - ts) * cur[i] + ts * cur[i + 1] for i in range(len(cur) - 1)]
    return cur[0]


def bez_critical(c):
    """parameters in (0,1) where the derivative of the real Bezier with control values c vanishes"""
    n = len(c) - 1
    d = [n * (c[i + 1] - c[i]) for i in range(n)]       # Bernstein coefficients of the derivative
    if n == 1:
        return []
    if n == 2:
        den = d[0] - d[1]
        return [d[0] / den] if den != 0 and 0 < d[0] / den < 1 else []
    # n == 3: derivative quadratic A t^2 + B t + C (power basis from Bernstein d0,d1,d2)
    A = d[0] - 2 * d[1] + d[2]
    B = 2 * (d[1] - d[0])
    C = d[0]
    roots = []
    scale = max(abs(A), abs(B), abs(C))
    if scale == 0:
        return []
    if abs(A) <= 1e-14 * scale:
        if B != 0:
            roots.append(-C / B)
    disc = B * B - 4 * A * C
    if A != 0 and disc >= 0:
        q = -(B + math.copysign(math.sqrt(disc), B)) / 2
        if q != 0:
            roots.append(C / q)
        roots.append(q / A)
    out = []
    for r in roots:
        if not math.isfinite(r):
            continue
        for _ in range(3):  # Newton polish on the derivative
            f = (A * r + B) * r + C
            fp = 2 * A * r + B
            if fp != 0 and math.isfinite(f / fp):
                r = r - f / fp
        if 0 < r < 1:
            out.append(r)
    return out


def ref_extremes_bezier(cpts):
    xs = [z.real for z in cpts]
    ys = [z.imag for z in cpts]
    out = []
    interior = False
    for c in (xs, ys):
        cand = [0.0, 1.0] + bez_critical(c)
        vals = bez_eval(c, np.array(cand))
        sample = bez_eval(c, TS)
        lo, hi = float(min(vals.min(), sample.min())), float(max(vals.max(), sample.max()))
        ends = (c[0], c[-1])
        if lo < min(ends) or hi > max(ends):
            interior = True
        out.append((lo, hi, float(sample.min()), float(sample.max())))
    return out, interior


def ref_extremes_arc(arc):
    cx, cy = arc.center.real, arc.center.imag
    rx, ry = arc.radius.real, arc.radius.imag
    phi = math.radians(arc.rotation)
    th, dl = math.radians(arc.theta), math.radians(arc.delta)
    cphi, sphi = math.cos(phi), math.sin(phi)

    def pt(a):
        return (cx + rx * cphi * math.cos(a) - ry * sphi * math.sin(a), cy + rx * sphi * math.cos(a) + ry * cphi * math.sin(a))

    lo_a, hi_a = min(th, th + dl), max(th, th + dl)
    nint = 0
    res = []
    for axis, a0 in ((0, math.atan2(-ry * sphi, rx * cphi)), (1, math.atan2(ry * cphi, rx * sphi))):
        cand = [th, th + dl]
        k0 = math.floor((lo_a - a0) / math.pi) - 1
        for k in range(k0, k0 + 8):
            a = a0 + k * math.pi
            if lo_a < a < hi_a:
                cand.append(a)
                nint += 1
        vals = [pt(a)[axis] for a in cand]
        aa = th + dl * TS
        if axis == 0:
            samp = cx + rx * cphi * np.cos(aa) - ry * sphi * np.sin(aa)
        else:
            samp = cy + rx * sphi * np.cos(aa) + ry * cphi * np.sin(aa)
        res.append((min(min(vals), float(samp.min())), max(max(vals), float(samp.max())), float(samp.min()), float(samp.max())))
    return res, nint


def check_seg(ctx, spec, seg, tag):
    kind = spec[0]
    ctx.count('kind:' + kind)
    ctx.count('class:' + tag)
    box = ctx.lib('bbox/' + kind, seg.bbox)
    try:
        xmin, xmax, ymin, ymax = [float(v) for v in box]
    except Exception:
        ctx.fail('bbox/not_four_numbers', 'bbox() returned %r' % (box,))
    if kind == 'A':
        (ex, ey), nint = ref_extremes_arc(seg)
        ctx.count('arc_extremes:%d' % min(nint, 4))
        interior = nint > 0
        size = max(abs(seg.radius.real), abs(seg.radius.imag), abs(seg.end - seg.start))
        pos = abs(seg.center) + size
    else:
        cpts = [gen.C(p) for p in spec[1:]]
        (ex, ey), interior = ref_extremes_bezier(cpts)
        size = max(max(z.real for z in cpts) - min(z.real for z in cpts), max(z.imag for z in cpts) - min(z.imag for z in cpts))
        pos = max(abs(z) for z in cpts)
    if size < 1e-9:
        ctx.discard('segment far below the 1e-3 coordinate scale (squares underflow)')
    if interior:
        ctx.count('interior_extreme')
        ctx.nontrivial(key=spec)
    # arcs: the library's angles come from acos (sqrt(eps) accuracy, see C04)
    if kind == 'A':
        from vp.ref import arc_ref
        L = arc_ref.lam(spec[1], spec[2][0], spec[2][1], spec[3], spec[6])
        if not (1e-12 < L < 1e12):
            ctx.discard('arc chord/radius ratio extreme (C04 KF01 territory)')
        degenerate = L > 1 or abs(1.0 / L - 1.0) < 1e-6
        ecc = max(abs(seg.radius.real), abs(seg.radius.imag)) / min(abs(seg.radius.real), abs(seg.radius.imag))
        tol = (2e-4 if degenerate else 1e-7) * size * max(1.0, ecc ** 0.5) + 1024 * EPS * pos
        if degenerate:
            ctx.count('arc_exactly_fitting_window')
    else:
        # the library's closed-form critical points are computed from the control values themselves (not their
        # differences): for a curve much smaller than its distance from the origin they lose sqrt-type accuracy
        tol = 1e-9 * size + 1e-11 * pos
    bucket_cls = '%s/%s' % (kind, tag if kind != 'A' else 'arc')
    for name, got, ref_lo, ref_hi, s_lo, s_hi in (('x', (xmin, xmax), ex[0], ex[1], ex[2], ex[3]), ('y', (ymin, ymax), ey[0], ey[1], ey[2], ey[3])):
        ctx.check(all(math.isfinite(v) for v in got), 'not_finite/' + bucket_cls, 'bbox %s-range %r' % (name, got))
        # (size of the miss, and the axis extent / coordinate magnitude it has to be read against: used by the KF02 matcher)
        det = {'err': max(abs(got[0] - ref_lo), abs(got[1] - ref_hi)), 'axis_ext': ref_hi - ref_lo, 'axis_pos': max(abs(ref_lo), abs(ref_hi))}
        # containment: every sampled point inside
        ctx.check(got[0] <= s_lo + tol and got[1] >= s_hi - tol, 'containment/' + bucket_cls,
                  'bbox %s-range %r does not contain the curve, whose sampled %s-range is [%r, %r]' % (name, got, name, s_lo, s_hi), **det)
        # tightness: each side is attained
        ctx.check(abs(got[0] - ref_lo) <= tol and abs(got[1] - ref_hi) <= tol, 'tightness/' + bucket_cls,
                  'bbox %s-range %r but the curve\'s %s-extremes are [%r, %r]' % (name, got, name, ref_lo, ref_hi), **det)
    return xmin, xmax, ymin, ymax


def arc_admissible(spec):
    from vp.ref import arc_ref
    if spec[1] == spec[6] or 0 in spec[2]:
        return False
    L = arc_ref.lam(spec[1], spec[2][0], spec[2][1], spec[3], spec[6])
    return 1e-12 < L < 1e12


def check(case, ctx):
    if case['what'] == 'seg':
        spec = case['spec']
        if spec[0] == 'A' and (spec[1] == spec[6] or 0 in spec[2]):
            ctx.discard('inadmissible arc')
        if spec[0] == 'A':
            from vp.ref import arc_ref
            L = arc_ref.lam(spec[1], spec[2][0], spec[2][1], spec[3], spec[6])
            if not (1e-12 < L < 1e12):
                ctx.discard('arc chord/radius ratio extreme (C04 KF01 territory)')
        seg = ctx.lib('build', gen.build_seg, spec)
        x0, x1, y0, y1 = check_seg(ctx, spec, seg, case['tag'])
        # an object derived from the one just queried, or the same object edited in place, gets its own box
        then = case.get('then', 'none')
        if then != 'none':
            w, h = max(x1 - x0, y1 - y0), max(x1 - x0, y1 - y0)
            if then == 'translated':
                d = ctx.lib('translated', seg.translated, complex(3 * w + 1, -2 * h - 1))
            elif then == 'reversed':
                d = ctx.lib('reversed', seg.reversed)
            elif then == 'rotated':
                d = ctx.lib('rotated', seg.rotated, 90, seg.start)
            elif then == 'scaled_neg':
                d = ctx.lib('scaled', seg.scaled, -1.5)
            elif then == 'scaled_neg_twice':
                d = ctx.lib('scaled', ctx.lib('scaled', seg.scaled, -1.5).scaled, -0.5)
            else:
                seg.start = seg.start + complex(-2 * w - 1, 3 * h + 1)
                d = seg
            ctx.count('then:' + then)
            spec_d = gen.seg_spec_of(d)
            if spec_d[0] != 'A' or arc_admissible(spec_d):
                check_seg(ctx, spec_d, d, case['tag'])
        return
    specs = case['segs']
    path = ctx.lib('build', gen.build_path, specs)
    ctx.count('path')
    boxes = []
    for spec, seg in zip(specs, path):
        if len({tuple(p) for p in gen.spec_points(spec)}) < 2:
            b = ctx.lib('bbox/degenerate', seg.bbox)
            boxes.append(tuple(float(v) for v in b))
            continue
        boxes.append(check_seg(ctx, spec, seg, 'in_path'))
    got = tuple(float(v) for v in ctx.lib('Path.bbox', path.bbox))
    want = (min(b[0] for b in boxes), max(b[1] for b in boxes), min(b[2] for b in boxes), max(b[3] for b in boxes))
    ctx.nontrivial()
    ctx.check(got == want, 'path/union', 'Path.bbox()=%r but the union of the segment boxes is %r' % (got, want))
    # the box follows the path when its end point is moved through the Path interface (after bbox() was already asked for)
    from svgpathtools import Arc
    if not isinstance(path[-1], Arc):
        far = complex(want[1] + (want[1] - want[0]) + 1.0, want[3] + (want[3] - want[2]) + 2.0)
        if not (specs[-1][0] == 'L' and gen.C(specs[-1][1]) == far):
            path.end = far
            moved = tuple(float(v) for v in ctx.lib('Path.bbox', path.bbox))
            again = [tuple(float(v) for v in sg.bbox()) for sg in path]
            want2 = (min(b[0] for b in again), max(b[1] for b in again), min(b[2] for b in again), max(b[3] for b in again))
            ctx.count('path_end_moved')
            ctx.check(moved == want2 and moved != got, 'path/stale_after_end_assignment',
                      'after path.end = %r, Path.bbox()=%r but the union of the segment boxes is %r' % (far, moved, want2))
