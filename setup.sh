#!/bin/bash
# Offline set-up: make sure hypothesis is importable by /venv/bin/python.
here="$(cd "$(dirname "$0")" && pwd)"
if ! PYTHONPATH="$here/.deps" /venv/bin/python -c "import hypothesis, numpy" 2>/dev/null; then
  /venv/bin/pip install --no-index --find-links /opt/veriftools/wheels --target "$here/.deps" hypothesis || exit 1
fi
PYTHONPATH="$here/.deps" /venv/bin/python -c "import hypothesis, numpy; print('hypothesis', hypothesis.__version__, 'numpy', numpy.__version__)"
