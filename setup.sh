#!/bin/bash
# Offline set-up: make sure hypothesis (and, for the optional coverage-guided engine of C02, atheris) are importable by
# /venv/bin/python; anything missing is installed from the offline wheelhouse into /verif/.deps (never into /venv).
here="$(cd "$(dirname "$0")" && pwd)"
if ! PYTHONPATH="$here/.deps" /venv/bin/python -c "import hypothesis, numpy" 2>/dev/null; then
  /venv/bin/pip install --no-index --find-links /opt/veriftools/wheels --target "$here/.deps" hypothesis || exit 1
fi
if ! PYTHONPATH="$here/.deps" /venv/bin/python -c "import atheris" 2>/dev/null; then
  /venv/bin/pip install --no-index --find-links /opt/veriftools/wheels --target "$here/.deps" --no-deps atheris \
    || echo "atheris not installable: the coverage-guided engine of C02 will be skipped (recorded in the evidence)"
fi
PYTHONPATH="$here/.deps" /venv/bin/python -c "import hypothesis, numpy; print('hypothesis', hypothesis.__version__, 'numpy', numpy.__version__)"
PYTHONPATH="$here/.deps" /venv/bin/python -c "import atheris; print('atheris ok')" 2>/dev/null || echo "atheris unavailable"
exit 0
